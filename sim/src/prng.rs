//! SplitMix64 -> xoshiro256**.  Own code so that no dependency's internal
//! stream can change what a seed means.

#[derive(Clone, Debug)]
pub struct Rng {
    s: [u64; 4],
}

pub fn splitmix(x: &mut u64) -> u64 {
    *x = x.wrapping_add(0x9e37_79b9_7f4a_7c15);
    let mut z = *x;
    z = (z ^ (z >> 30)).wrapping_mul(0xbf58_476d_1ce4_e5b9);
    z = (z ^ (z >> 27)).wrapping_mul(0x94d0_49bb_1331_11eb);
    z ^ (z >> 31)
}

/// Mixes several integers into one seed (order matters).
pub fn mix(parts: &[u64]) -> u64 {
    let mut acc = 0x243f_6a88_85a3_08d3u64;
    for &p in parts {
        let mut x = acc ^ p;
        acc = splitmix(&mut x).rotate_left(17) ^ p.wrapping_mul(0xff51_afd7_ed55_8ccd);
    }
    let mut x = acc;
    splitmix(&mut x)
}

impl Rng {
    pub fn new(seed: u64) -> Rng {
        let mut x = seed;
        let s = [
            splitmix(&mut x),
            splitmix(&mut x),
            splitmix(&mut x),
            splitmix(&mut x),
        ];
        Rng { s }
    }

    pub fn next(&mut self) -> u64 {
        let r = self.s[1].wrapping_mul(5).rotate_left(7).wrapping_mul(9);
        let t = self.s[1] << 17;
        self.s[2] ^= self.s[0];
        self.s[3] ^= self.s[1];
        self.s[1] ^= self.s[2];
        self.s[0] ^= self.s[3];
        self.s[2] ^= t;
        self.s[3] = self.s[3].rotate_left(45);
        r
    }

    /// Uniform in 0..n (n > 0).
    pub fn below(&mut self, n: u64) -> u64 {
        debug_assert!(n > 0);
        // multiply-shift; bias is irrelevant at these sizes
        ((self.next() as u128 * n as u128) >> 64) as u64
    }

    pub fn usize(&mut self, n: usize) -> usize {
        self.below(n as u64) as usize
    }

    /// Uniform in lo..=hi.
    pub fn range(&mut self, lo: usize, hi: usize) -> usize {
        lo + self.usize(hi - lo + 1)
    }

    /// True with probability num/den.
    pub fn chance(&mut self, num: u64, den: u64) -> bool {
        self.below(den) < num
    }

    pub fn pick<'a, T>(&mut self, xs: &'a [T]) -> &'a T {
        &xs[self.usize(xs.len())]
    }

    /// Picks an index according to integer weights.
    pub fn weighted(&mut self, weights: &[u64]) -> usize {
        let total: u64 = weights.iter().sum();
        let mut r = self.below(total);
        for (i, &w) in weights.iter().enumerate() {
            if r < w {
                return i;
            }
            r -= w;
        }
        weights.len() - 1
    }

    pub fn shuffle<T>(&mut self, xs: &mut [T]) {
        for i in (1..xs.len()).rev() {
            let j = self.usize(i + 1);
            xs.swap(i, j);
        }
    }
}

/// Order sensitive 64 bit digest of an event stream.
#[derive(Clone, Copy, Debug)]
pub struct Dig(pub u64);

impl Default for Dig {
    fn default() -> Self {
        Dig::new()
    }
}

impl Dig {
    pub fn new() -> Dig {
        Dig(0xcbf2_9ce4_8422_2325)
    }
    pub fn add(&mut self, x: u64) {
        let mut v = self.0 ^ x.wrapping_mul(0x9e37_79b9_7f4a_7c15);
        v = (v ^ (v >> 32)).wrapping_mul(0xd6e8_feb8_6659_fd93);
        self.0 = v.rotate_left(23) ^ (v >> 29);
    }
    pub fn add_all(&mut self, xs: &[u64]) {
        for &x in xs {
            self.add(x);
        }
    }
    pub fn add_bytes(&mut self, bs: &[u8]) {
        self.add(bs.len() as u64);
        for chunk in bs.chunks(8) {
            let mut buf = [0u8; 8];
            buf[..chunk.len()].copy_from_slice(chunk);
            self.add(u64::from_le_bytes(buf));
        }
    }
    pub fn finish(&self) -> u64 {
        let mut x = self.0;
        splitmix(&mut x)
    }
}
