//! Seeded workload generation: sequence pairs, ranges, lookups, texts.

use serde::{Deserialize, Serialize};
use similar::Algorithm;

use crate::prng::Rng;

#[derive(Clone, Copy, Debug, Serialize, Deserialize, PartialEq, Eq)]
pub enum Alg {
    Myers,
    Patience,
    Lcs,
}

pub const ALGS: [Alg; 3] = [Alg::Myers, Alg::Patience, Alg::Lcs];

impl Alg {
    pub fn to(self) -> Algorithm {
        match self {
            Alg::Myers => Algorithm::Myers,
            Alg::Patience => Algorithm::Patience,
            Alg::Lcs => Algorithm::Lcs,
        }
    }
    pub fn code(self) -> u64 {
        self as u64
    }
}

#[derive(Clone, Copy, Debug, Serialize, Deserialize, PartialEq, Eq)]
pub enum IndexKind {
    /// plain slices
    Slice,
    /// lookups that panic outside the requested range
    Window,
    /// the crate's own IdentifyDistinct lookups built over the ranges
    Distinct,
    /// lookups into a virtual sequence whose indices start above 2^32 (the
    /// ranges handed to the crate are shifted by one of the `FAR_BASES` pairs, some in the upper half of usize)
    Far,
}

/// (old base, new base) pairs of the virtual index spaces: above 2^32, in the
/// upper half of usize, next to usize::MAX, and straddling 2^63.
pub const FAR_BASES: [(usize, usize); 4] = [
    ((1 << 40) + 3, (1 << 41) + 11),
    ((1 << 63) + 5, (1 << 62) + 9),
    (usize::MAX - (1 << 24), (1 << 63) - 7),
    ((1 << 32) + 1, usize::MAX - (1 << 25)),
];

#[derive(Clone, Debug, Serialize, Deserialize, PartialEq)]
pub struct SeqCase {
    pub alg: Alg,
    pub old: Vec<u32>,
    pub new: Vec<u32>,
    pub old_range: (usize, usize),
    pub new_range: (usize, usize),
    pub index: IndexKind,
    pub hasher: (u8, u64),
}

impl SeqCase {
    pub fn or(&self) -> std::ops::Range<usize> {
        self.old_range.0..self.old_range.1
    }
    pub fn nr(&self) -> std::ops::Range<usize> {
        self.new_range.0..self.new_range.1
    }
    // a range written with start > end is an empty range (as for std's
    // `Range::is_empty`); the helpers below treat it as such
    pub fn n(&self) -> usize {
        self.old_range.1.saturating_sub(self.old_range.0)
    }
    pub fn m(&self) -> usize {
        self.new_range.1.saturating_sub(self.new_range.0)
    }
    pub fn old_core(&self) -> &[u32] {
        &self.old[self.old_range.0..self.old_range.0 + self.n()]
    }
    pub fn new_core(&self) -> &[u32] {
        &self.new[self.new_range.0..self.new_range.0 + self.m()]
    }
    /// Bases of the virtual index spaces of `Far` lookups (a function of the
    /// case, so that replay files stay self-contained).
    pub fn far_bases(&self) -> (usize, usize) {
        FAR_BASES[(self.hasher.1 % FAR_BASES.len() as u64) as usize]
    }
    /// The ranges as they are handed to the crate (shifted for `Far` lookups).
    pub fn or_abs(&self) -> std::ops::Range<usize> {
        if self.index == IndexKind::Far {
            let b = self.far_bases().0;
            b + self.old_range.0..b + self.old_range.1
        } else {
            self.or()
        }
    }
    pub fn nr_abs(&self) -> std::ops::Range<usize> {
        if self.index == IndexKind::Far {
            let b = self.far_bases().1;
            b + self.new_range.0..b + self.new_range.1
        } else {
            self.nr()
        }
    }
    /// (old shift, new shift) to subtract from reported indices.
    pub fn shifts(&self) -> (usize, usize) {
        if self.index == IndexKind::Far {
            self.far_bases()
        } else {
            (0, 0)
        }
    }
    pub fn full_ranges(&self) -> bool {
        self.old_range == (0, self.old.len()) && self.new_range == (0, self.new.len())
    }
}

#[derive(Clone, Copy, Debug, PartialEq, Eq)]
pub enum Size {
    /// 0..=12 items over 1..=4 symbols
    Small,
    /// 13..=60
    Medium,
    /// 101..=400 (both sides of the 100 token switch)
    Large,
    /// up to `max` items, for work bounds
    Huge(usize),
}

fn rand_seq(rng: &mut Rng, len: usize, alphabet: u32) -> Vec<u32> {
    (0..len).map(|_| rng.below(alphabet as u64) as u32).collect()
}

/// Applies random edits (delete / insert / substitute / duplicate / block
/// move) to `base`.
fn edit(rng: &mut Rng, base: &[u32], edits: usize, alphabet: u32) -> Vec<u32> {
    let mut v = base.to_vec();
    for _ in 0..edits {
        match rng.below(6) {
            0 if !v.is_empty() => {
                let i = rng.usize(v.len());
                let l = 1 + rng.usize((v.len() - i).min(3));
                v.drain(i..i + l);
            }
            1 => {
                let i = rng.usize(v.len() + 1);
                let l = 1 + rng.usize(3);
                for _ in 0..l {
                    v.insert(i, rng.below(alphabet as u64) as u32);
                }
            }
            2 if !v.is_empty() => {
                let i = rng.usize(v.len());
                v[i] = rng.below(alphabet as u64) as u32;
            }
            3 if !v.is_empty() => {
                let i = rng.usize(v.len());
                let x = v[i];
                v.insert(i, x);
            }
            4 if v.len() >= 2 => {
                // block move
                let i = rng.usize(v.len());
                let l = 1 + rng.usize((v.len() - i).min(4));
                let block: Vec<u32> = v.drain(i..i + l).collect();
                let j = rng.usize(v.len() + 1);
                for (t, x) in block.into_iter().enumerate() {
                    v.insert(j + t, x);
                }
            }
            _ => {
                // new symbol outside the alphabet (unique item)
                let i = rng.usize(v.len() + 1);
                v.insert(i, 1000 + rng.below(1000) as u32);
            }
        }
    }
    v
}

/// Draws a pair of sequences in one of several styles.
pub fn gen_pair(rng: &mut Rng, size: Size) -> (Vec<u32>, Vec<u32>) {
    let (lo, hi) = match size {
        Size::Small => (0, 12),
        Size::Medium => (13, 60),
        // a third of the large cases straddle the 100-item switch of the text
        // diff builder (99, 100, 101 items ...)
        Size::Large => {
            if rng.chance(1, 3) {
                (85, 115)
            } else {
                (101, 400)
            }
        }
        Size::Huge(max) => (max / 2, max),
    };
    let len = rng.range(lo, hi);
    let style = rng.weighted(&[4, 6, 3, 2, 2, 1, 1]);
    let small = size == Size::Small;
    let alphabet = if small {
        1 + rng.below(4) as u32
    } else {
        *rng.pick(&[2u32, 3, 4, 8, 16, 64])
    };
    match style {
        0 => {
            // two independent random sequences over a small alphabet
            let len2 = rng.range(lo.min(len), hi);
            (rand_seq(rng, len, alphabet), rand_seq(rng, len2, alphabet))
        }
        1 => {
            // new is an edited copy of old
            let old = rand_seq(rng, len, alphabet);
            let edits = 1 + rng.usize(if small { 3 } else { 1 + len / 8 });
            let new = edit(rng, &old, edits, alphabet);
            (old, new)
        }
        2 => {
            // many items unique on both sides, in permuted order, plus repeats
            let mut old: Vec<u32> = (0..len as u32).map(|i| 100 + i).collect();
            for _ in 0..len / 4 {
                if !old.is_empty() {
                    let i = rng.usize(old.len());
                    old[i] = rng.below(3) as u32;
                }
            }
            let mut new = old.clone();
            // local shuffles keep some order
            for _ in 0..1 + len / 3 {
                if new.len() >= 2 {
                    let i = rng.usize(new.len() - 1);
                    let j = (i + 1 + rng.usize(3)).min(new.len() - 1);
                    new.swap(i, j);
                }
            }
            let extra = rng.usize(3);
            let new = edit(rng, &new, extra, alphabet);
            (old, new)
        }
        3 => {
            // periodic
            let p = 1 + rng.usize(3);
            let old: Vec<u32> = (0..len).map(|i| (i % p) as u32).collect();
            let len2 = rng.range(lo.min(len), hi);
            let shift = rng.usize(p + 1);
            let new: Vec<u32> = (0..len2).map(|i| ((i + shift) % (p + rng.usize(2))) as u32).collect();
            (old, new)
        }
        4 => {
            // identical or nearly identical
            let old = rand_seq(rng, len, alphabet.max(2));
            let new = if rng.chance(1, 2) {
                old.clone()
            } else {
                edit(rng, &old, 1, alphabet)
            };
            (old, new)
        }
        5 => {
            // one side empty or tiny
            let a = rand_seq(rng, len, alphabet);
            let blen = rng.usize(2);
            let b = rand_seq(rng, blen, alphabet);
            if rng.chance(1, 2) {
                (a, b)
            } else {
                (b, a)
            }
        }
        _ => {
            // completely unrelated (disjoint alphabets)
            let len2 = rng.range(lo.min(len), hi);
            let old = rand_seq(rng, len, alphabet);
            let new: Vec<u32> = rand_seq(rng, len2, alphabet).into_iter().map(|x| x + 500).collect();
            (old, new)
        }
    }
}

/// Embeds the pair into longer sequences so that the interesting part is a
/// strict sub-range; the surroundings are drawn so that they often equal
/// items inside the range (an algorithm that looks outside its range is then
/// led astray) and often are equal to each other (a relative index used as an
/// absolute one then still finds *something*).
pub fn embed(
    rng: &mut Rng,
    old: Vec<u32>,
    new: Vec<u32>,
    sub_ranges: bool,
) -> (Vec<u32>, (usize, usize), Vec<u32>, (usize, usize)) {
    if !sub_ranges {
        let (n, m) = (old.len(), new.len());
        return (old, (0, n), new, (0, m));
    }
    let pad = |rng: &mut Rng, core: &[u32]| -> Vec<u32> {
        let l = rng.usize(5);
        (0..l)
            .map(|_| {
                if !core.is_empty() && rng.chance(2, 3) {
                    core[rng.usize(core.len())]
                } else {
                    rng.below(4) as u32
                }
            })
            .collect()
    };
    let (op, os) = (pad(rng, &new), pad(rng, &new));
    let (np, ns) = (pad(rng, &old), pad(rng, &old));
    let mut o = op.clone();
    o.extend_from_slice(&old);
    o.extend_from_slice(&os);
    let mut n = np.clone();
    n.extend_from_slice(&new);
    n.extend_from_slice(&ns);
    let or = (op.len(), op.len() + old.len());
    let nr = (np.len(), np.len() + new.len());
    (o, or, n, nr)
}

pub fn gen_seq_case(rng: &mut Rng, size: Size, alg: Option<Alg>) -> SeqCase {
    let alg = alg.unwrap_or_else(|| *rng.pick(&ALGS));
    let (old, new) = gen_pair(rng, size);
    let sub = rng.chance(2, 5);
    let (old, old_range, new, new_range) = embed(rng, old, new, sub);
    let index = match rng.weighted(&[10, 6, 4, 1]) {
        0 => IndexKind::Slice,
        1 => IndexKind::Window,
        2 => IndexKind::Distinct,
        _ => IndexKind::Far,
    };
    let allow_degenerate = old.len() + new.len() <= 200;
    let hasher = crate::simenv::draw_hasher(rng, allow_degenerate);
    SeqCase {
        alg,
        old,
        new,
        old_range,
        new_range,
        index,
        hasher,
    }
}

/// Generic shrink candidates for a sequence case (most aggressive first).
pub fn shrink_seq(c: &SeqCase) -> Vec<SeqCase> {
    let mut out = Vec::new();
    // reversed (empty) ranges: offer the plain empty range, then work on that
    let mut norm = c.clone();
    if norm.old_range.1 < norm.old_range.0 {
        norm.old_range.1 = norm.old_range.0;
    }
    if norm.new_range.1 < norm.new_range.0 {
        norm.new_range.1 = norm.new_range.0;
    }
    if norm != *c {
        out.push(norm.clone());
        out.extend(shrink_seq(&norm));
        return out;
    }
    // simplest lookup / hasher
    if c.index != IndexKind::Slice {
        let mut d = c.clone();
        d.index = IndexKind::Slice;
        out.push(d);
    }
    if c.hasher != (0, 0) {
        let mut d = c.clone();
        d.hasher = (0, 0);
        out.push(d);
    }
    // drop everything outside the ranges
    if !c.full_ranges() {
        let mut d = c.clone();
        d.old = c.old_core().to_vec();
        d.new = c.new_core().to_vec();
        d.old_range = (0, d.old.len());
        d.new_range = (0, d.new.len());
        out.push(d);
        // or only trailing / leading padding
        if c.old_range.1 < c.old.len() || c.new_range.1 < c.new.len() {
            let mut d = c.clone();
            d.old.truncate(c.old_range.1);
            d.new.truncate(c.new_range.1);
            out.push(d);
        }
        if c.old_range.0 > 0 {
            let mut d = c.clone();
            d.old.remove(0);
            d.old_range = (c.old_range.0 - 1, c.old_range.1 - 1);
            out.push(d);
        }
        if c.new_range.0 > 0 {
            let mut d = c.clone();
            d.new.remove(0);
            d.new_range = (c.new_range.0 - 1, c.new_range.1 - 1);
            out.push(d);
        }
    }
    // for very large cases only coarse candidates are generated (every
    // candidate is a full copy of the case)
    let big = c.old.len() + c.new.len() > 4000;
    let min_chunk = |len: usize| if big { (len / 8).max(1) } else { 1 };
    // remove the same relative chunk from both sides (keeps alignments)
    {
        let (olo, ohi) = c.old_range;
        let (nlo, nhi) = c.new_range;
        let len = (ohi - olo).min(nhi - nlo);
        let mut chunk = len / 2;
        while chunk >= min_chunk(len) {
            let mut start = 0;
            while start + chunk <= len {
                for from_end in [false, true] {
                    let mut d = c.clone();
                    if from_end {
                        d.old.drain(ohi - start - chunk..ohi - start);
                        d.new.drain(nhi - start - chunk..nhi - start);
                    } else {
                        d.old.drain(olo + start..olo + start + chunk);
                        d.new.drain(nlo + start..nlo + start + chunk);
                    }
                    d.old_range.1 -= chunk;
                    d.new_range.1 -= chunk;
                    out.push(d);
                }
                start += chunk;
            }
            chunk /= 2;
        }
    }
    // remove chunks, then single items, inside the ranges
    for side in 0..2 {
        let (lo, hi) = if side == 0 { c.old_range } else { c.new_range };
        let len = hi - lo;
        let mut chunk = len / 2;
        while chunk >= min_chunk(len) {
            let mut start = lo;
            while start + chunk <= hi {
                let mut d = c.clone();
                if side == 0 {
                    d.old.drain(start..start + chunk);
                    d.old_range.1 -= chunk;
                } else {
                    d.new.drain(start..start + chunk);
                    d.new_range.1 -= chunk;
                }
                out.push(d);
                start += chunk;
            }
            chunk /= 2;
        }
    }
    if big {
        return out;
    }
    // merge symbols towards a smaller alphabet
    let mut syms: Vec<u32> = c.old.iter().chain(c.new.iter()).copied().collect();
    syms.sort();
    syms.dedup();
    for (i, &s) in syms.iter().enumerate() {
        if i > 0 {
            let t = syms[i - 1];
            let mut d = c.clone();
            for x in d.old.iter_mut().chain(d.new.iter_mut()) {
                if *x == s {
                    *x = t;
                }
            }
            out.push(d);
        }
        if s != i as u32 && !syms.contains(&(i as u32)) {
            let mut d = c.clone();
            for x in d.old.iter_mut().chain(d.new.iter_mut()) {
                if *x == s {
                    *x = i as u32;
                }
            }
            out.push(d);
        }
    }
    out
}

/// Calls `$body` with `$old`/`$new` bound to lookups of the kind the case
/// asks for, over element type `Counted`.
#[macro_export]
macro_rules! with_lookups {
    ($case:expr, $oldv:expr, $newv:expr, |$old:ident, $new:ident| $body:expr) => {{
        let case: &$crate::gen::SeqCase = $case;
        match case.index {
            $crate::gen::IndexKind::Slice => {
                let $old = &$oldv[..];
                let $new = &$newv[..];
                $body
            }
            $crate::gen::IndexKind::Window => {
                let wo = $crate::simenv::Win {
                    data: &$oldv[..],
                    range: case.or(),
                };
                let wn = $crate::simenv::Win {
                    data: &$newv[..],
                    range: case.nr(),
                };
                let $old = &wo;
                let $new = &wn;
                $body
            }
            $crate::gen::IndexKind::Far => {
                let fo = $crate::simenv::Far {
                    data: &$oldv[..],
                    base: case.far_bases().0,
                };
                let fnew = $crate::simenv::Far {
                    data: &$newv[..],
                    base: case.far_bases().1,
                };
                let $old = &fo;
                let $new = &fnew;
                $body
            }
            $crate::gen::IndexKind::Distinct => {
                let h = similar::algorithms::IdentifyDistinct::<u32>::new(
                    &$oldv[..],
                    case.or(),
                    &$newv[..],
                    case.nr(),
                );
                let $old = h.old_lookup();
                let $new = h.new_lookup();
                $body
            }
        }
    }};
}

/// The script producer of C10: a random monotone alignment of the two ranges
/// (a walk through the edit graph), whose delete steps and insert steps are
/// two logical streams that the PRNG merges in an arbitrary order inside each
/// run of changes and coalesces into calls of drawn lengths.  Carried
/// indices are exact (the cursor of the other side).  No `Finish`.
pub fn gen_script(rng: &mut Rng, seq: &SeqCase) -> Vec<crate::simenv::Call> {
    use crate::simenv::Call;
    let (mut i, mut j) = (seq.old_range.0, seq.new_range.0);
    let (n, m) = (seq.old_range.1, seq.new_range.1);
    // probability (in percent) of taking an available diagonal
    let p_diag = *rng.pick(&[30u64, 60, 85, 100]);
    // probability of continuing the current call instead of starting a new one
    let p_join = *rng.pick(&[0u64, 50, 80, 100]);
    // bias between delete and insert steps
    let p_del = *rng.pick(&[20u64, 50, 80]);
    #[derive(PartialEq, Clone, Copy)]
    enum Step {
        E,
        D,
        I,
    }
    let mut steps = Vec::new();
    while i < n || j < m {
        let can_diag = i < n && j < m && seq.old[i] == seq.new[j];
        let s = if can_diag && rng.below(100) < p_diag {
            Step::E
        } else if i < n && (j >= m || rng.below(100) < p_del) {
            Step::D
        } else if j < m {
            Step::I
        } else {
            Step::D
        };
        match s {
            Step::E => {
                i += 1;
                j += 1;
            }
            Step::D => i += 1,
            Step::I => j += 1,
        }
        steps.push(s);
    }
    let mut calls: Vec<Call> = Vec::new();
    let (mut i, mut j) = (seq.old_range.0, seq.new_range.0);
    let mut prev: Option<Step> = None;
    for s in steps {
        let join = prev == Some(s) && rng.below(100) < p_join;
        match s {
            Step::E => {
                if join {
                    if let Some(Call::Equal(_, _, l)) = calls.last_mut() {
                        *l += 1;
                    }
                } else {
                    calls.push(Call::Equal(i, j, 1));
                }
                i += 1;
                j += 1;
            }
            Step::D => {
                if join {
                    if let Some(Call::Delete(_, l, _)) = calls.last_mut() {
                        *l += 1;
                    }
                } else {
                    calls.push(Call::Delete(i, 1, j));
                }
                i += 1;
            }
            Step::I => {
                if join {
                    if let Some(Call::Insert(_, _, l)) = calls.last_mut() {
                        *l += 1;
                    }
                } else {
                    calls.push(Call::Insert(i, j, 1));
                }
                j += 1;
            }
        }
        prev = Some(s);
    }
    calls
}

// ------------------------------------------------------------------ line texts

#[derive(Clone, Debug, Serialize, Deserialize, PartialEq)]
pub struct TextCase {
    pub alg: Alg,
    pub old: Vec<u8>,
    pub new: Vec<u8>,
    /// diff the texts as [u8] (true) or as str (false; requires valid UTF-8)
    pub bytes: bool,
    pub hasher: (u8, u64),
}

const LINE_POOL: [&[u8]; 14] = [
    b"a",
    b"b",
    b"",
    b"c",
    b"foo bar",
    b"foo baz",
    b"x",
    b"-- a",
    b"++ b",
    b"@@ -1 +1 @@",
    b"\\ No newline at end of file",
    "h\u{e9}llo w\u{f6}rld".as_bytes(),
    b" ",
    b"-",
];
const BAD_POOL: [&[u8]; 4] = [b"\xff\xfe", b"a\xc3", b"\xe2\x82", b"ok\x80ok"];

fn draw_line(rng: &mut Rng, distinct: usize, invalid: bool) -> Vec<u8> {
    let mut l: Vec<u8> = if invalid && rng.chance(1, 4) {
        BAD_POOL[rng.usize(BAD_POOL.len())].to_vec()
    } else {
        LINE_POOL[rng.usize(distinct.min(LINE_POOL.len()))].to_vec()
    };
    if !invalid && rng.chance(1, 15) {
        l.extend_from_slice(odd_str(rng).as_bytes());
        l.push(b'q');
    }
    let term: &[u8] = match rng.weighted(&[12, 2, 1]) {
        0 => b"\n",
        1 => b"\r\n",
        _ => b"\r",
    };
    // rarely a long line whose length (terminator included) sits on or next
    // to a power of two
    if rng.chance(1, 40) {
        const EDGES: [usize; 8] = [64, 128, 256, 512, 1024, 4096, 8192, 65536];
        let total = EDGES[rng.weighted(&[2, 2, 4, 2, 2, 2, 1, 1])] + rng.usize(3) - 1;
        let want = total.saturating_sub(term.len());
        let fill = b"abcdefgh"[rng.usize(8)];
        while l.len() < want {
            l.push(fill);
        }
    }
    l.extend_from_slice(term);
    l
}

/// Old text: lines over a small pool (many repeats); new text: an edited copy.
pub fn gen_text_case(rng: &mut Rng, max_lines: usize, allow_invalid: bool) -> TextCase {
    let bytes = rng.chance(1, 3);
    let invalid = bytes && allow_invalid && rng.chance(1, 2);
    let distinct = *rng.pick(&[2usize, 3, 4, 6, 14]);
    let n = rng.usize(max_lines + 1);
    let mut old: Vec<Vec<u8>> = (0..n).map(|_| draw_line(rng, distinct, invalid)).collect();
    let mut new = old.clone();
    let edits = rng.usize(4) + if rng.chance(1, 6) { 0 } else { 1 };
    for _ in 0..edits {
        match rng.below(7) {
            0 if !new.is_empty() => {
                let i = rng.usize(new.len());
                let l = 1 + rng.usize((new.len() - i).min(3));
                new.drain(i..i + l);
            }
            1 => {
                let i = rng.usize(new.len() + 1);
                for _ in 0..1 + rng.usize(3) {
                    let line = draw_line(rng, distinct, invalid);
                    new.insert(i, line);
                }
            }
            2 if !new.is_empty() => {
                let i = rng.usize(new.len());
                new[i] = draw_line(rng, distinct, invalid);
            }
            3 if !new.is_empty() => {
                let i = rng.usize(new.len());
                let l = new[i].clone();
                new.insert(i, l);
            }
            4 if new.len() >= 2 => {
                let i = rng.usize(new.len());
                let l = new.remove(i);
                let j = rng.usize(new.len() + 1);
                new.insert(j, l);
            }
            5 if !new.is_empty() => {
                // change only the terminator of a line
                let i = rng.usize(new.len());
                while matches!(new[i].last(), Some(b'\n') | Some(b'\r')) {
                    new[i].pop();
                }
                match rng.below(3) {
                    0 => new[i].push(b'\n'),
                    1 => new[i].extend_from_slice(b"\r\n"),
                    _ => new[i].push(b'\r'),
                }
            }
            _ => {
                if rng.chance(1, 2) {
                    std::mem::swap(&mut old, &mut new);
                }
            }
        }
    }
    // missing final newline on either side
    for side in [&mut old, &mut new] {
        if rng.chance(1, 4) {
            if let Some(last) = side.last_mut() {
                while matches!(last.last(), Some(b'\n') | Some(b'\r')) {
                    last.pop();
                }
                if last.is_empty() {
                    side.pop();
                }
            }
        }
    }
    TextCase {
        alg: *rng.pick(&ALGS),
        old: old.concat(),
        new: new.concat(),
        bytes,
        hasher: crate::simenv::draw_hasher(rng, true),
    }
}

/// Shrink candidates for a text case: drop lines (same line on both sides
/// first), simplify contents, switch to str.
pub fn shrink_text(c: &TextCase) -> Vec<TextCase> {
    use crate::udiff_oracle::split_lines;
    let mut out = Vec::new();
    if c.hasher != (0, 0) {
        let mut d = c.clone();
        d.hasher = (0, 0);
        out.push(d);
    }
    if c.bytes && std::str::from_utf8(&c.old).is_ok() && std::str::from_utf8(&c.new).is_ok() {
        let mut d = c.clone();
        d.bytes = false;
        out.push(d);
    }
    let ol: Vec<Vec<u8>> = split_lines(&c.old).into_iter().map(|l| l.to_vec()).collect();
    let nl: Vec<Vec<u8>> = split_lines(&c.new).into_iter().map(|l| l.to_vec()).collect();
    // drop a common first / last line
    if !ol.is_empty() && !nl.is_empty() {
        if ol[0] == nl[0] {
            let mut d = c.clone();
            d.old = ol[1..].concat();
            d.new = nl[1..].concat();
            out.push(d);
        }
        if ol[ol.len() - 1] == nl[nl.len() - 1] {
            let mut d = c.clone();
            d.old = ol[..ol.len() - 1].concat();
            d.new = nl[..nl.len() - 1].concat();
            out.push(d);
        }
    }
    // for very large texts only coarse candidates (each one is a full copy)
    let big = ol.len() + nl.len() > 3000;
    for side in 0..2 {
        let lines = if side == 0 { &ol } else { &nl };
        let mut chunk = lines.len() / 2;
        while chunk >= if big { (lines.len() / 8).max(1) } else { 1 } {
            let mut start = 0;
            while start + chunk <= lines.len() {
                let mut l = lines.clone();
                l.drain(start..start + chunk);
                let mut d = c.clone();
                if side == 0 {
                    d.old = l.concat();
                } else {
                    d.new = l.concat();
                }
                out.push(d);
                start += chunk;
            }
            chunk /= 2;
        }
    }
    if big {
        return out;
    }
    // simplify single lines: content -> "a"/"b", terminator -> "\n"
    for side in 0..2 {
        let lines = if side == 0 { &ol } else { &nl };
        for i in 0..lines.len() {
            for repl in [&b"a\n"[..], &b"b\n"[..]] {
                if (repl.len(), repl) < (lines[i].len(), &lines[i][..]) {
                    let mut l = lines.clone();
                    // replace every occurrence on both sides to keep equalities
                    let target = lines[i].clone();
                    let mut d = c.clone();
                    let map = |ls: &Vec<Vec<u8>>| -> Vec<u8> {
                        ls.iter()
                            .map(|x| if *x == target { repl.to_vec() } else { x.clone() })
                            .collect::<Vec<_>>()
                            .concat()
                    };
                    d.old = map(&ol);
                    d.new = map(&nl);
                    l.clear();
                    if d != *c {
                        out.push(d);
                    }
                }
            }
        }
    }
    out
}

// ------------------------------------------------------- texts for inline diffs

const IWORDS: [&str; 23] = [
    // terminal control sequences: complete, cut off inside, and a bare ESC
    "\u{1b}[31m", "\u{1b}[38;5;", "\u{1b}[", "\u{1b}", "\u{1b}[0m",
    "foo", "bar", "baz", "qux", "a", "bb", "h\u{e9}llo", "w\u{f6}rld", "\u{65e5}\u{672c}\u{8a9e}",
    "x1", "(y)", "f(x)", "=>", "\u{1f642}", "some", "stuff",
    // a genuine replacement character and a zero width space are valid text
    "\u{fffd}", "a\u{200b}b",
];
const ISEPS: [&str; 6] = [" ", " ", "  ", "\t", "\u{a0}", "\u{3000}"];

fn iline(rng: &mut Rng, nwords: usize) -> Vec<String> {
    (0..nwords).map(|_| IWORDS[rng.usize(IWORDS.len())].to_string()).collect()
}

fn render_iline(rng: &mut Rng, words: &[String], term: &str) -> String {
    let mut s = String::new();
    if rng.chance(1, 8) {
        s.push_str(ISEPS[rng.usize(ISEPS.len())]);
    }
    for (i, w) in words.iter().enumerate() {
        if i > 0 {
            if rng.chance(1, 12) {
                let odd = odd_str(rng);
                // (a line break inside a line would change the line structure)
                if odd != "\u{2028}" && odd != "\u{2029}" || true {
                    s.push_str(odd);
                }
            } else {
                s.push_str(ISEPS[rng.usize(ISEPS.len())]);
            }
        }
        s.push_str(w);
        if rng.chance(1, 25) {
            s.push_str(odd_str(rng));
        }
    }
    if rng.chance(1, 8) {
        s.push(' ');
    }
    s.push_str(term);
    s
}

fn iterm(rng: &mut Rng) -> &'static str {
    match rng.weighted(&[12, 3, 2]) {
        0 => "\n",
        1 => "\r\n",
        _ => "\r",
    }
}

/// Line texts whose replaced blocks share words, so that the inline ratio
/// gates pass and the second-level word diff has something to do.
pub fn gen_inline_case(rng: &mut Rng, max_lines: usize) -> TextCase {
    let n = 1 + rng.usize(max_lines);
    let mut old: Vec<String> = Vec::new();
    let mut new: Vec<String> = Vec::new();
    let mut i = 0;
    while i < n {
        let nwords = 1 + rng.usize(6);
        let words = iline(rng, nwords);
        let term = iterm(rng);
        match rng.weighted(&[3, 6, 1, 1, 1, 2]) {
            5 => {
                // a block of 3..=6 lines against ONE line made of the head of
                // the first and the tail of the last of them (or the other
                // way round): the word-level diff then has a single run that
                // covers whole lines in the middle
                let k = 3 + rng.usize(4);
                let mut lines: Vec<Vec<String>> = Vec::new();
                for j in 0..k {
                    // short middle lines keep the similarity gates open
                    let nw = if j == 0 || j + 1 == k { 2 + rng.usize(4) } else { 1 + rng.usize(2) };
                    lines.push((0..nw).map(|t| format!("{}{}", IWORDS[rng.usize(IWORDS.len())], j * 7 + t)).collect());
                }
                let mut joined: Vec<String> = lines[0].clone();
                let last = &lines[k - 1];
                let keep = 1 + rng.usize(last.len());
                joined.extend(last[last.len() - keep..].iter().cloned());
                let many: Vec<String> = lines
                    .iter()
                    .map(|ws| {
                        let t = iterm(rng);
                        render_iline(rng, ws, t)
                    })
                    .collect();
                let t = iterm(rng);
                let one = render_iline(rng, &joined, t);
                if rng.chance(1, 2) {
                    old.extend(many);
                    new.push(one);
                } else {
                    old.push(one);
                    new.extend(many);
                }
            }
            0 => {
                // unchanged line
                let l = render_iline(rng, &words, term);
                old.push(l.clone());
                new.push(l);
            }
            1 => {
                // replaced block: 1..=3 old lines vs 1..=3 new lines sharing words
                // rarely a big block (more than 32 lines on a side)
                let big = rng.chance(1, 25);
                let a = if big { 28 + rng.usize(40) } else { 1 + rng.usize(3) };
                let b = if big { 28 + rng.usize(40) } else { 1 + rng.usize(3) };
                let mut pool = words.clone();
                for _ in 0..a.min(3) {
                    let ne = rng.usize(3);
                    let extra = iline(rng, ne);
                    pool.extend(extra);
                }
                let mut take = |rng: &mut Rng, pool: &Vec<String>| -> Vec<String> {
                    let mut ws = Vec::new();
                    let start = rng.usize(pool.len());
                    let len = 1 + rng.usize(pool.len().min(if big { 4 } else { 12 }));
                    for t in 0..len.min(pool.len()) {
                        let mut w = pool[(start + t) % pool.len()].clone();
                        if rng.chance(1, 5) {
                            w = IWORDS[rng.usize(IWORDS.len())].to_string();
                        }
                        ws.push(w);
                    }
                    ws
                };
                for _ in 0..a {
                    let ws = take(rng, &pool);
                    let t = iterm(rng);
                    old.push(render_iline(rng, &ws, t));
                }
                for _ in 0..b {
                    let ws = take(rng, &pool);
                    let t = iterm(rng);
                    new.push(render_iline(rng, &ws, t));
                }
            }
            2 => old.push(render_iline(rng, &words, term)),
            3 => new.push(render_iline(rng, &words, term)),
            _ => {
                // same words, only the terminator or the spacing differs
                old.push(render_iline(rng, &words, term));
                let t2 = iterm(rng);
                new.push(render_iline(rng, &words, t2));
            }
        }
        i += 1;
    }
    for side in [&mut old, &mut new] {
        if rng.chance(1, 3) {
            if let Some(last) = side.last_mut() {
                while last.ends_with('\n') || last.ends_with('\r') {
                    last.pop();
                }
                if last.is_empty() {
                    side.pop();
                }
            }
        }
    }
    TextCase {
        alg: *rng.pick(&ALGS),
        old: old.concat().into_bytes(),
        new: new.concat().into_bytes(),
        bytes: rng.chance(1, 3),
        hasher: crate::simenv::draw_hasher(rng, true),
    }
}


/// Blocks `[u_i, a_i, a_i, a_i]` against `[a_i, a_i, a_i, u_i]` (some blocks
/// permuted, some left alone): more than a thousand items that are unique on
/// both sides, and whether an item is anchored changes the diff.
pub fn gen_unique_heavy(rng: &mut Rng, blocks: usize) -> (Vec<u32>, Vec<u32>) {
    let mut old = Vec::new();
    let mut new = Vec::new();
    for i in 0..blocks as u32 {
        let u = 1_000_000 + i;
        let a = 10 + i % 997;
        match rng.below(4) {
            0 => {
                old.extend_from_slice(&[u, a, a, a]);
                new.extend_from_slice(&[a, a, a, u]);
            }
            1 => {
                old.extend_from_slice(&[u, a]);
                new.extend_from_slice(&[a, u]);
            }
            2 => {
                old.extend_from_slice(&[u, a, a]);
                new.extend_from_slice(&[u, a, a]);
            }
            _ => {
                old.extend_from_slice(&[a, u, a]);
                new.extend_from_slice(&[u]);
            }
        }
    }
    (old, new)
}


/// Two sequences over disjoint alphabets (no item of one equals an item of
/// the other), each side with repeats.
pub fn gen_disjoint(rng: &mut Rng, n: usize, m: usize) -> (Vec<u32>, Vec<u32>) {
    let a = 1 + rng.below(40) as u32;
    let old = (0..n).map(|_| rng.below(a as u64) as u32).collect();
    let new = (0..m).map(|_| 5000 + rng.below(a as u64) as u32).collect();
    (old, new)
}


/// A very fragmented pair: thousands of isolated one-item replacements between
/// repeated items, so that an algorithm reports thousands of raw ops, and
/// insertions next to repeats that the clean-up pass has to slide.
pub fn gen_fragmented(rng: &mut Rng, blocks: usize) -> (Vec<u32>, Vec<u32>) {
    let mut old = Vec::new();
    let mut new = Vec::new();
    for i in 0..blocks as u32 {
        let a = rng.below(3) as u32;
        match rng.below(8) {
            0 => {
                // insertion that can slide over a repeat
                old.extend_from_slice(&[2_000_000 + i, a, a + 1]);
                new.extend_from_slice(&[3_000_000 + i, a, a + 1, a + 1]);
            }
            1 => {
                old.extend_from_slice(&[a, a]);
                new.extend_from_slice(&[a, a, a]);
            }
            _ => {
                old.extend_from_slice(&[a, 2_000_000 + i]);
                new.extend_from_slice(&[a, 3_000_000 + i]);
            }
        }
    }
    (old, new)
}

// ------------------------------------------------------------ threshold giants
//
// Rare, deliberately large inputs that sit just above typical internal limits
// (16-bit ids, 2^24 table cells, 4096-item slides) while staying cheap to diff.

/// More than 65536 distinct items overall although each side has fewer than
/// 65536 items: `side` items that occur on one side only, then a long shared
/// run.
pub fn gen_many_distinct(rng: &mut Rng) -> (Vec<u32>, Vec<u32>) {
    let side = 1200 + rng.usize(900);
    // each side: side + shared <= 65535; distinct overall: 2*side + shared > 65536
    let shared = 65_535 - side - rng.usize(40);
    let mut old: Vec<u32> = (0..side as u32).map(|i| 1_000_000 + i).collect();
    let mut new: Vec<u32> = (0..side as u32).map(|i| 2_000_000 + i).collect();
    for i in 0..shared as u32 {
        old.push(i);
        new.push(i);
    }
    debug_assert!(old.len() <= 65_535 && new.len() <= 65_535);
    (old, new)
}

/// A differing middle of more than 2^24 cells (4100 x 4100 and up) over
/// disjoint alphabets between a short common prefix and suffix.
pub fn gen_many_cells(rng: &mut Rng) -> (Vec<u32>, Vec<u32>) {
    let n = 4097 + rng.usize(60);
    let m = 4097 + rng.usize(60);
    let mut old = vec![7u32, 8];
    let mut new = vec![7u32, 8];
    old.extend((0..n).map(|_| rng.below(30) as u32 + 100));
    new.extend((0..m).map(|_| rng.below(30) as u32 + 500));
    old.push(9);
    new.push(9);
    (old, new)
}

/// More than 2^16 items that are unique and common to both sides in one run
/// (between differing first and last items, so that nothing is stripped as a
/// common prefix or suffix), optionally with a second, short run behind a
/// change.
pub fn gen_long_anchor_run(rng: &mut Rng) -> (Vec<u32>, Vec<u32>) {
    gen_long_anchor_run_sized(rng, 16)
}

/// `bits`: the run has a little more than 2^bits items.  With `bits` above 16
/// a repeated (hence not unique) marker may sit inside the run on one side:
/// the anchors are then adjacent on the other side only.
pub fn gen_long_anchor_run_sized(rng: &mut Rng, bits: u32) -> (Vec<u32>, Vec<u32>) {
    let n = (1usize << bits) + 10 + rng.usize(5000);
    let (mut old, mut new) = gen_long_anchor_run_inner(rng, n);
    if bits > 16 && rng.chance(2, 3) {
        let side = if rng.chance(1, 2) { &mut new } else { &mut old };
        let len = side.len();
        for _ in 0..2 {
            let at = 10 + rng.usize(len - 20);
            side.insert(at, 55);
        }
    }
    (old, new)
}

/// A random sequence of 66 000 - 140 000 items over a large alphabet and a copy
/// with a handful of point edits (cheap for Myers, but one invocation sees
/// more than 2^17 items), ending in a long common suffix.
pub fn gen_big_edited_copy(rng: &mut Rng) -> (Vec<u32>, Vec<u32>) {
    let n = 66_000 + rng.usize(74_000);
    let old: Vec<u32> = (0..n).map(|_| 100 + rng.below(5000) as u32).collect();
    let mut new = old.clone();
    for _ in 0..1 + rng.usize(6) {
        let at = rng.usize(new.len() * 3 / 4);
        match rng.below(3) {
            0 => {
                new.remove(at);
            }
            1 => new.insert(at, 7 + rng.below(5) as u32),
            _ => new[at] = 7 + rng.below(5) as u32,
        }
    }
    (old, new)
}

fn gen_long_anchor_run_inner(rng: &mut Rng, n: usize) -> (Vec<u32>, Vec<u32>) {
    // mostly the differing items around the run are repeated, i.e. not unique
    // themselves: then the lists of unique items of the two sides are equal
    // and the whole run is one `equal` of the unique-item diff even when the
    // deadline has run out
    let dup = rng.chance(3, 4);
    let rep = |x: u32| if dup { vec![x, x] } else { vec![x] };
    let mut old = rep(1);
    let mut new = rep(2);
    new.extend(rep(3));
    old.extend((0..n as u32).map(|i| 100 + i));
    new.extend((0..n as u32).map(|i| 100 + i));
    if rng.chance(1, 2) {
        old.extend(rep(4));
        old.extend(rep(5));
        new.extend(rep(6));
        let k = 3 + rng.below(50) as u32;
        old.extend((0..k).map(|i| 10_000_000 + i));
        new.extend((0..k).map(|i| 10_000_000 + i));
    }
    old.extend(rep(7));
    new.extend(rep(8));
    (old, new)
}

/// `old = B`, `new = B B` with more than 4096 items in B: the appended copy
/// is an insertion that can slide up by a whole block.
pub fn gen_big_slide(rng: &mut Rng) -> (Vec<u32>, Vec<u32>) {
    let n = 4097 + rng.usize(900);
    let b: Vec<u32> = (0..n).map(|_| rng.below(50) as u32).collect();
    let mut new = b.clone();
    new.extend_from_slice(&b);
    (b, new)
}

/// Replaced block of `lines` lines with `words` words each, every line changed
/// in one word (so the whole block is one Replace op whose sides hold more
/// than 65536 words).
pub fn gen_wordy_block(rng: &mut Rng) -> (String, String) {
    let lines = 1250 + rng.usize(100);
    let mut old = String::new();
    let mut new = String::new();
    for i in 0..lines {
        let words = 27 + rng.usize(5);
        let change_at = rng.usize(words);
        for w in 0..words {
            if w > 0 {
                old.push(' ');
                new.push(' ');
            }
            if w == change_at {
                old.push_str(&format!("o{}", i));
                new.push_str(&format!("n{}", i));
            } else if w == 0 {
                old.push_str(&format!("k{}", i));
                new.push_str(&format!("k{}", i));
            } else {
                old.push('w');
                new.push('w');
            }
        }
        old.push('\n');
        new.push('\n');
    }
    (old, new)
}

/// A replaced block that does not start at line 0 and contains a line with
/// more than 32 separate changed words.
pub fn gen_zebra_block(rng: &mut Rng) -> (String, String) {
    let mut old = String::from("head line\n");
    let mut new = String::from("head line\n");
    if rng.chance(1, 2) {
        old.push_str("second head\n");
        new.push_str("second head\n");
    }
    let pairs = 33 + rng.usize(12);
    let term = if rng.chance(1, 3) { "\r\n" } else { "\n" };
    for i in 0..pairs {
        old.push_str(&format!("a{} keep ", i));
        new.push_str(&format!("b{} keep ", i));
    }
    old.push_str(term);
    new.push_str(term);
    let extra = 1 + rng.usize(2);
    for i in 0..extra {
        old.push_str(&format!("tail {} one{}", i, term));
        new.push_str(&format!("tail {} two{}", i, term));
    }
    if rng.chance(1, 2) {
        old.push_str("end\n");
        new.push_str("end\n");
    }
    (old, new)
}


/// Rewrites an empty range of the case as `start..end` with `end < start`
/// (still an empty range) with some probability.
pub fn maybe_reverse_empty(rng: &mut Rng, seq: &mut SeqCase) {
    if seq.old_range.0 == seq.old_range.1 && seq.old_range.0 > 0 && rng.chance(1, 3) {
        seq.old_range.1 = rng.usize(seq.old_range.0);
    }
    if seq.new_range.0 == seq.new_range.1 && seq.new_range.0 > 0 && rng.chance(1, 3) {
        seq.new_range.1 = rng.usize(seq.new_range.0);
    }
}

/// A long run of identical (or periodic) items with a marker item that moves
/// far down the run and one extra item: slides of thousands of single steps.
pub fn gen_long_run(rng: &mut Rng) -> (Vec<u32>, Vec<u32>) {
    let period = 1 + rng.usize(2);
    let span = if rng.chance(1, 2) { 900 } else { 5200 };
    let run = 1100 + rng.usize(span);
    let item = |i: usize| (i % period) as u32;
    match rng.below(3) {
        0 => {
            // one item more in the run
            let mut old: Vec<u32> = (0..run).map(item).collect();
            let mut new: Vec<u32> = (0..run + period).map(item).collect();
            old.push(77);
            new.push(77);
            (old, new)
        }
        1 => {
            // a marker sits early in the run and moves far down; the run grows
            let at = 10 + rng.usize(20);
            let down = run - 20 - rng.usize(40);
            let mut old: Vec<u32> = (0..run).map(item).collect();
            let mut new: Vec<u32> = (0..run + period).map(item).collect();
            old.insert(at, 88);
            new.insert(down, 88);
            (old, new)
        }
        _ => {
            // a change in front, the long run, more changes behind it
            let mut old = vec![91u32];
            let mut new = vec![92u32, 0];
            old.extend((0..run).map(item));
            new.extend((0..run).map(item));
            old.extend_from_slice(&[93, 0, 94]);
            new.extend_from_slice(&[0, 95, 0, 94]);
            (old, new)
        }
    }
}

/// Two matched unique items with more than 16384 items between them on both
/// sides (a changed item, then a long repeated stretch).
pub fn gen_big_gap(rng: &mut Rng) -> (Vec<u32>, Vec<u32>) {
    let gap = 16_400 + rng.usize(4000);
    let mut old = vec![1001u32, 5];
    let mut new = vec![1001u32, 6];
    for i in 0..gap {
        let x = (i % 3) as u32;
        old.push(x);
        new.push(x);
    }
    old.push(1002);
    new.push(1002);
    old.extend_from_slice(&[7, 8]);
    new.extend_from_slice(&[8]);
    (old, new)
}

/// A lopsided pair with more than 16384 differences: many distinct items on
/// one side, a few unrelated ones on the other.
pub fn gen_lopsided(rng: &mut Rng) -> (Vec<u32>, Vec<u32>) {
    // (a third of them with more than 2^16 items on the long side)
    let long = if rng.chance(1, 3) { 65_600 + rng.usize(6000) } else { 16_500 + rng.usize(1500) };
    let short = if rng.chance(1, 3) { 1 + rng.usize(12) } else { 20 + rng.usize(40) };
    let a: Vec<u32> = (0..long as u32).map(|i| 10_000 + i).collect();
    let b: Vec<u32> = (0..short as u32).map(|i| 5_000_000 + i).collect();
    if rng.chance(1, 2) {
        (a, b)
    } else {
        (b, a)
    }
}

/// A replaced line longer than 1 MiB in which a two-byte character straddles
/// byte offset 2^20 (plus a second, ordinary changed line).
pub fn gen_megaline(rng: &mut Rng) -> (String, String) {
    let words = 176_000 + rng.usize(3000);
    // "ab" + "w\u{f6}rd " * n: byte 2^20 is the second byte of an o-umlaut
    let mut old = String::with_capacity(words * 6 + 64);
    old.push_str("head\n");
    let mut new = old.clone();
    let mut line = String::with_capacity(words * 6 + 8);
    line.push_str("ab");
    for _ in 0..words {
        line.push_str("w\u{f6}rd ");
    }
    let change_at = 2 + 6 * rng.usize(1000);
    let mut line2 = line.clone();
    line2.replace_range(change_at..change_at + 1, "W");
    old.push_str(&line);
    old.push('\n');
    new.push_str(&line2);
    new.push('\n');
    old.push_str("tail one\n");
    new.push_str("tail two\n");
    (old, new)
}

/// A composite giant: a handful of blocks (unique items, a run of one item, a
/// periodic run, random items over a small alphabet) whose lengths are drawn
/// log-uniformly up to 2^15, and a new side derived by block-level edits
/// (keep / grow / tweak a few items; at most one massive edit: drop, duplicate
/// or replace a whole block).  Sweeps run lengths, gap sizes, slide distances,
/// distinct counts and lopsidedness over four orders of magnitude instead of
/// hand-picked thresholds, while keeping the edit distance small enough to
/// diff quickly.
pub fn gen_composite(rng: &mut Rng) -> (Vec<u32>, Vec<u32>) {
    let nblocks = 2 + rng.usize(6);
    let mut fresh = 10_000_000u32;
    let mut old: Vec<u32> = Vec::new();
    let mut new: Vec<u32> = Vec::new();
    let massive_at = if rng.chance(2, 3) { Some(rng.usize(nblocks)) } else { None };
    for b in 0..nblocks {
        let bits = rng.usize(16);
        let len = ((1usize << bits) + rng.usize(1 << bits)).min(40_000);
        if old.len() + len > 70_000 {
            break;
        }
        let kind = rng.below(4);
        let sym = rng.below(6) as u32;
        let period = 2 + rng.usize(3);
        let alpha = 2 + rng.below(30) as u32;
        let mut block: Vec<u32> = Vec::with_capacity(len);
        for i in 0..len {
            block.push(match kind {
                0 => {
                    fresh += 1;
                    fresh
                }
                1 => sym,
                2 => (i % period) as u32 + 100,
                _ => rng.below(alpha as u64) as u32 + 1000,
            });
        }
        old.extend_from_slice(&block);
        // the new side's version of this block
        if massive_at == Some(b) {
            match rng.below(3) {
                0 => {} // dropped
                1 => {
                    new.extend_from_slice(&block);
                    new.extend_from_slice(&block);
                }
                _ => {
                    for _ in 0..1 + rng.usize(40) {
                        fresh += 1;
                        new.push(fresh);
                    }
                }
            }
        } else {
            match rng.below(10) {
                0 => {
                    // grows by a few items of its own kind
                    new.extend_from_slice(&block);
                    let extra = 1 + rng.usize(3);
                    for i in 0..extra.min(block.len().max(1)) {
                        new.push(*block.get(i).unwrap_or(&sym));
                    }
                }
                1 | 2 => {
                    // a few items changed, inserted or removed inside
                    let mut nb = block.clone();
                    for _ in 0..1 + rng.usize(3) {
                        if nb.is_empty() {
                            break;
                        }
                        let at = rng.usize(nb.len());
                        match rng.below(3) {
                            0 => {
                                fresh += 1;
                                nb[at] = fresh;
                            }
                            1 => {
                                nb.remove(at);
                            }
                            _ => {
                                let x = nb[at];
                                nb.insert(at, x);
                            }
                        }
                    }
                    new.extend_from_slice(&nb);
                }
                _ => new.extend_from_slice(&block),
            }
        }
        // sometimes a small separator that differs between the sides
        if rng.chance(1, 3) {
            fresh += 2;
            old.push(fresh - 1);
            new.push(if rng.chance(1, 2) { fresh - 1 } else { fresh });
        }
    }
    (old, new)
}


/// Code points that text code tends to get wrong: every Unicode White_Space
/// character, separators that are *not* White_Space, format characters,
/// line/paragraph separators, BOM, replacement character, combining marks,
/// characters of every UTF-8 length, flags and ZWJ sequences.
pub const ODD_STRS: [&str; 44] = [
    "\u{9}", "\u{b}", "\u{c}", "\u{1c}", "\u{1d}", "\u{1e}", "\u{1f}", "\u{85}", "\u{a0}", "\u{ad}",
    "\u{1680}", "\u{180e}", "\u{2000}", "\u{2001}", "\u{2002}", "\u{2003}", "\u{2007}", "\u{2009}",
    "\u{200a}", "\u{200b}", "\u{200c}", "\u{200d}", "\u{200e}", "\u{2028}", "\u{2029}", "\u{202f}",
    "\u{205f}", "\u{2060}", "\u{3000}", "\u{feff}", "\u{fffd}", "\u{ffff}", "\u{10000}", "\u{10ffff}",
    "\u{e0001}", "e\u{301}", "\u{1f1e6}\u{1f1f9}", "\u{1f468}\u{200d}\u{1f469}\u{200d}\u{1f467}",
    "\u{7f}", "\u{0}", "\u{80}", "\u{7ff}", "\u{800}", "\u{d7ff}",
];

pub fn odd_str(rng: &mut Rng) -> &'static str {
    ODD_STRS[rng.usize(ODD_STRS.len())]
}

/// Ill-formed UTF-8: invalid lead bytes, truncated 2/3/4-byte characters, a
/// lone continuation byte, an encoded surrogate, an overlong encoding.
pub const ILL_FORMED: [&[u8]; 9] = [
    b"\xff",
    b"\xfe\xff",
    b"\xf0\x90\x80",
    b"\xf0\x90\x81",
    b"\xe2\x82",
    b"\xc3",
    b"\x80",
    b"\xed\xa0\x80",
    b"\xc0\xaf",
];

/// Splices 1..=3 ill-formed sequences into `text` (valid UTF-8) at character
/// boundaries; the same few sequences are used on both sides of a case so that
/// they also take part in equal words.
pub fn splice_ill_formed(rng: &mut Rng, text: &[u8]) -> Vec<u8> {
    let s = match std::str::from_utf8(text) {
        Ok(s) => s,
        Err(_) => return text.to_vec(),
    };
    let mut cuts: Vec<usize> = s.char_indices().map(|(i, _)| i).collect();
    cuts.push(s.len());
    let mut at: Vec<usize> = (0..1 + rng.usize(3)).map(|_| cuts[rng.usize(cuts.len())]).collect();
    at.sort();
    let mut out = Vec::with_capacity(text.len() + 12);
    let mut last = 0;
    for a in at {
        out.extend_from_slice(&text[last..a]);
        out.extend_from_slice(ILL_FORMED[[0usize, 2, 3, 6][rng.usize(4)]]);
        if rng.chance(1, 2) {
            out.extend_from_slice(ILL_FORMED[rng.usize(ILL_FORMED.len())]);
        }
        last = a;
    }
    out.extend_from_slice(&text[last..]);
    out
}

