//! simcheck — deterministic simulation with fault injection for `similar`.
//!
//! simcheck run <Cxx> <quick|thorough>     run a batch, write evidence, exit 0/1/2
//! simcheck replay <file>                  re-execute one replay file
//! simcheck selftest determinism [runs]    run every property twice, compare digests
//! simcheck digest <Cxx> <runs>            print per-batch digest (used across processes)

#![allow(dead_code)]
mod custom_str;
mod engine;
mod gen;
mod oracle;
mod prng;
mod props;
mod simenv;
mod udiff_oracle;

use std::path::{Path, PathBuf};
use std::process::{Command, ExitCode};

use engine::{
    minimise, replay_file, run_batch, run_seed, verif_dir, write_evidence, write_replay, Prop, Tier,
};
use prng::Rng;
use serde_json::{json, Value};

fn seed_from_env() -> u64 {
    std::env::var("VERIF_SEED")
        .ok()
        .and_then(|s| s.trim().parse::<u64>().ok())
        .unwrap_or(1)
}

/// Known findings file: committed, never written at run time.
fn known_findings() -> Vec<Value> {
    let path = verif_dir().join("known_findings.json");
    match std::fs::read_to_string(&path) {
        Ok(text) => serde_json::from_str::<Value>(&text)
            .ok()
            .and_then(|v| v.get("findings").and_then(|f| f.as_array().cloned()))
            .unwrap_or_default(),
        Err(_) => Vec::new(),
    }
}

fn run_prop<P: Prop>(p: &P, tier: Tier) -> ExitCode {
    let seed = seed_from_env();
    let nruns = std::env::var("VERIF_RUNS")
        .ok()
        .and_then(|s| s.parse().ok())
        .unwrap_or_else(|| p.runs(tier));
    println!(
        "simcheck property={} tier={} VERIF_SEED={} runs={} workers={}",
        p.id(),
        tier.name(),
        seed,
        nruns,
        engine::workers()
    );
    let res = run_batch(p, tier, seed, nruns);
    let agg = &res.agg;
    println!(
        "  runs={} executions={} distinct_runs={} distinct_nontrivial={} wall={:.1}s batch_digest={:016x}",
        agg.runs,
        agg.execs,
        agg.digests.len(),
        agg.nontrivial.len(),
        res.wall_s,
        agg.batch_digest
    );
    let names = p.fault_names();
    let faults: Vec<String> = names
        .iter()
        .enumerate()
        .map(|(i, n)| format!("{}={}", n, agg.faults[i]))
        .collect();
    println!("  faults fired: {}", faults.join(" "));
    for (name, v) in p.reach(agg) {
        if v == 0 {
            println!("  WARNING reach probe '{}' is zero in this batch", name);
        }
    }

    // known findings (listed in the committed file) are reported, not alarmed
    let listed = known_findings();
    let mut known_lines = Vec::new();
    for (kid, (count, first)) in &agg.known {
        let entry = listed.iter().find(|f| {
            f["id"].as_str() == Some(kid.as_str())
                && f["property"].as_str() == Some(p.id())
                && f["kind"].as_str() == Some("known")
        });
        match entry {
            Some(e) => {
                let line = format!(
                    "KNOWN-FINDING: property={} {} {} ({} attributed cases in this batch, first at run {})",
                    p.id(),
                    kid,
                    e["what"].as_str().unwrap_or(""),
                    count,
                    first
                );
                println!("{}", line);
                known_lines.push(line);
            }
            None => {
                // attributed to an id the file does not list: harness error
                eprintln!("harness error: attribution to unlisted finding {}", kid);
                return ExitCode::from(2);
            }
        }
    }

    let mut violations = 0usize;
    let mut reported: Vec<&'static str> = Vec::new();
    let mut harness_error = false;
    for (idx, f, _) in agg.fails.iter() {
        if reported.contains(&f.clause) {
            continue; // one replay per violated clause
        }
        reported.push(f.clause);
        if f.clause.starts_with("harness.") {
            eprintln!("harness error at run {}: {} {}", idx, f.clause, f.detail);
            harness_error = true;
            continue;
        }
        let mut rng = Rng::new(run_seed(seed, p.id(), *idx));
        let case = p.gen(&mut rng, tier, *idx);
        let (min_case, min_fail, steps) = minimise(p, &case, f, 5000);
        let path = write_replay(p, &min_case, &min_fail, seed, *idx, steps);
        // the minimised file must reproduce in a fresh process
        let ok = replay_in_fresh_process(&path, p.id(), min_fail.clause);
        println!(
            "  violation at run {}: clause={} detail={}",
            idx, min_fail.clause, min_fail.detail
        );
        if !ok {
            eprintln!(
                "harness error: replay of {} in a fresh process did not reproduce {}",
                path.display(),
                min_fail.clause
            );
            harness_error = true;
            continue;
        }
        if min_fail.clause.starts_with("harness.") {
            eprintln!("harness error: {} {}", min_fail.clause, min_fail.detail);
            harness_error = true;
            continue;
        }
        violations += 1;
        println!("VIOLATION property={} replay={}", p.id(), path.display());
    }
    write_evidence(
        p,
        tier,
        seed,
        &res,
        violations,
        &known_lines,
        json!({"failing_runs_seen": agg.fails.len()}),
    );
    if harness_error {
        return ExitCode::from(2);
    }
    if violations > 0 {
        ExitCode::from(1)
    } else {
        println!("OK property={} held on everything explored", p.id());
        ExitCode::SUCCESS
    }
}

fn replay_in_fresh_process(path: &Path, id: &str, clause: &str) -> bool {
    let exe = match std::env::current_exe() {
        Ok(e) => e,
        Err(_) => return false,
    };
    let out = Command::new(exe).arg("replay").arg(path).output();
    match out {
        Ok(o) => {
            let text = String::from_utf8_lossy(&o.stdout);
            o.status.code() == Some(1)
                && text.contains(&format!("VIOLATION property={}", id))
                && text.contains(&format!("clause={}", clause))
        }
        Err(_) => false,
    }
}

fn replay_prop<P: Prop>(p: &P, path: &Path) -> ExitCode {
    match replay_file(p, path) {
        Ok(Some((f, known))) => {
            if let Some(k) = known {
                println!("KNOWN-FINDING: property={} {} (replayed)", p.id(), k);
                return ExitCode::SUCCESS;
            }
            println!("  clause={} detail={}", f.clause, f.detail);
            println!("VIOLATION property={} replay={}", p.id(), path.display());
            ExitCode::from(1)
        }
        Ok(None) => {
            println!("replay {}: no violation", path.display());
            ExitCode::SUCCESS
        }
        Err(e) => {
            eprintln!("harness error: {}", e);
            ExitCode::from(2)
        }
    }
}

fn digest_prop<P: Prop>(p: &P, tier: Tier, runs: u64) -> String {
    let res = run_batch(p, tier, seed_from_env(), runs);
    format!(
        "{} runs={} execs={} distinct={} nontrivial={} fails={} digest={:016x}",
        p.id(),
        res.agg.runs,
        res.agg.execs,
        res.agg.digests.len(),
        res.agg.nontrivial.len(),
        res.agg.fails.len(),
        res.agg.batch_digest
    )
}

macro_rules! dispatch {
    ($id:expr, |$p:ident| $body:expr) => {
        match $id {
            "C02" => {
                let $p = &props::capfam::CapProp(props::capfam::Which::C02);
                $body
            }
            "C09" => {
                let $p = &props::capfam::CapProp(props::capfam::Which::C09);
                $body
            }
            "C10" => {
                let $p = &props::c10::C10;
                $body
            }
            "C05" => {
                let $p = &props::c05::C05;
                $body
            }
            "C16" => {
                let $p = &props::c16::C16;
                $body
            }
            "C20" => {
                let $p = &props::c20::C20;
                $body
            }
            "C07" => {
                let $p = &props::c07::C07;
                $body
            }
            "C08" => {
                let $p = &props::c08::C08;
                $body
            }
            other => {
                eprintln!("harness error: unknown or unclaimed property {}", other);
                return ExitCode::from(2);
            }
        }
    };
}

pub const CLAIMED: [&str; 8] = ["C02", "C05", "C07", "C08", "C09", "C10", "C16", "C20"];

fn main() -> ExitCode {
    engine::install_panic_hook();
    let args: Vec<String> = std::env::args().collect();
    let cmd = args.get(1).map(|s| s.as_str()).unwrap_or("");
    match cmd {
        "run" => {
            let id = args.get(2).map(|s| s.as_str()).unwrap_or("");
            let tier = match args.get(3).map(|s| s.as_str()) {
                Some("thorough") => Tier::Thorough,
                _ => Tier::Quick,
            };
            dispatch!(id, |p| run_prop(p, tier))
        }
        "replay" => {
            let path = PathBuf::from(args.get(2).cloned().unwrap_or_default());
            let text = match std::fs::read_to_string(&path) {
                Ok(t) => t,
                Err(e) => {
                    eprintln!("harness error: cannot read {}: {}", path.display(), e);
                    return ExitCode::from(2);
                }
            };
            let v: Value = match serde_json::from_str(&text) {
                Ok(v) => v,
                Err(e) => {
                    eprintln!("harness error: cannot parse {}: {}", path.display(), e);
                    return ExitCode::from(2);
                }
            };
            let id = v["property"].as_str().unwrap_or("").to_string();
            dispatch!(id.as_str(), |p| replay_prop(p, &path))
        }
        "digest" => {
            let id = args.get(2).map(|s| s.as_str()).unwrap_or("");
            let runs: u64 = args.get(3).and_then(|s| s.parse().ok()).unwrap_or(1000);
            let tier = match args.get(4).map(|s| s.as_str()) {
                Some("thorough") => Tier::Thorough,
                _ => Tier::Quick,
            };
            let line = dispatch!(id, |p| digest_prop(p, tier, runs));
            println!("{}", line);
            ExitCode::SUCCESS
        }
        "selftest" if args.get(2).map(|s| s.as_str()) == Some("transparent") => {
            // the hooks must not change behaviour: ops under an installed
            // simulation context (never-expiring clock, keyed hasher) equal the
            // ops of a context-free run (real clock, std RandomState)
            use gen::{gen_seq_case, Size};
            let n: u64 = args.get(3).and_then(|s| s.parse().ok()).unwrap_or(20_000);
            let mut bad = 0u64;
            for i in 0..n {
                let mut rng = Rng::new(run_seed(seed_from_env(), "transparent", i));
                let size = match rng.weighted(&[6, 3, 1]) {
                    0 => Size::Small,
                    1 => Size::Medium,
                    _ => Size::Large,
                };
                let mut seq = gen_seq_case(&mut rng, size, None);
                seq.hasher = (0, rng.next());
                if seq.index == gen::IndexKind::Far {
                    seq.index = gen::IndexKind::Window;
                }
                gen::maybe_reverse_empty(&mut rng, &mut seq);
                let with = props::c07::capture_exec(&seq, true, simenv::Sched::Never);
                let oldc = simenv::counted(&seq.old);
                let newc = simenv::counted(&seq.new);
                similar::verif::set_hasher(None);
                let far = std::time::Instant::now() + std::time::Duration::from_secs(3600);
                let without = engine::guarded(|| {
                    with_lookups!(&seq, oldc, newc, |o, nn| similar::capture_diff_deadline(
                        seq.alg.to(),
                        o,
                        seq.or(),
                        nn,
                        seq.nr(),
                        Some(far)
                    ))
                });
                match (with, without) {
                    (Ok(a), Ok(b)) if a.ops == oracle::ops_of(&b) => {}
                    _ => {
                        bad += 1;
                        println!("hooks not transparent on case {:?}", seq);
                    }
                }
            }
            println!("hooks-transparent: {} cases, {} disagreements", n, bad);
            if bad > 0 {
                ExitCode::from(2)
            } else {
                ExitCode::SUCCESS
            }
        }
        "selftest" => {
            // determinism: every claimed property, same seed, run in separate
            // processes with 1, 5 and 16 workers; digests must agree
            let runs = args.get(3).cloned().unwrap_or_else(|| "600".into());
            let exe = std::env::current_exe().unwrap();
            let mut bad = false;
            for id in CLAIMED {
                let mut lines = Vec::new();
                for w in ["1", "5", "16", "16"] {
                    let out = Command::new(&exe)
                        .args(["digest", id, &runs])
                        .env("VERIF_WORKERS", w)
                        .output()
                        .expect("spawn");
                    lines.push(String::from_utf8_lossy(&out.stdout).trim().to_string());
                }
                let same = lines.iter().all(|l| *l == lines[0] && !l.is_empty());
                println!("{} {}", if same { "deterministic" } else { "DIVERGED" }, lines[0]);
                if !same {
                    for l in &lines {
                        println!("    {}", l);
                    }
                    bad = true;
                }
            }
            if bad {
                ExitCode::from(2)
            } else {
                ExitCode::SUCCESS
            }
        }
        _ => {
            eprintln!("usage: simcheck run <Cxx> <quick|thorough> | replay <file> | selftest determinism [runs] | digest <Cxx> <runs>");
            ExitCode::from(2)
        }
    }
}
