//! The simulated parties: virtual clock, fallible recording hook, byte sink,
//! hasher configuration, counting elements and windowed lookups.

use std::cell::{Cell, RefCell};
use std::io;
use std::ops::{Index, Range};
use std::rc::Rc;
use std::sync::OnceLock;
use std::time::{Duration, Instant};

use serde::{Deserialize, Serialize};
use similar::algorithms::DiffHook;
use similar::verif;

use crate::prng::{Dig, Rng};

// ---------------------------------------------------------------- virtual time

/// Virtual time is an offset in nanoseconds from one real `Instant` captured
/// once per process; only offsets are ever compared or logged.
pub const EPOCH_NS: u64 = 1_000_000_000_000; // leave room below the epoch

fn base() -> Instant {
    static BASE: OnceLock<Instant> = OnceLock::new();
    *BASE.get_or_init(Instant::now)
}

pub fn instant_at(ns: u64) -> Instant {
    base() + Duration::from_nanos(ns)
}

pub fn offset_of(i: Instant) -> u64 {
    i.saturating_duration_since(base()).as_nanos().min(u64::MAX as u128) as u64
}

#[derive(Clone, Debug, Serialize, Deserialize, PartialEq)]
pub enum Sched {
    /// the deadline never expires
    Never,
    /// probe i answers `i >= k`
    Indexed(u64),
    /// every probe advances time by a drawn step (mostly small, sometimes a
    /// stall or a forward jump); expiry is decided by comparing with the
    /// deadline that arrives at the probe
    Cost { seed: u64, profile: u8 },
    /// virtual time is the work done so far: the deadline has passed once the
    /// calling thread has made `budget` element comparisons (time runs out
    /// between two probes, wherever the code happens to be)
    Work { budget: u64 },
}

#[derive(Debug)]
pub struct ClockState {
    pub sched: Sched,
    pub now_ns: u64,
    pub probes: u64,
    pub first_expired: Option<u64>,
    pub cmps_at_expiry: Option<u64>,
    /// distinct deadline offsets the clock was asked about (at most a few)
    pub asked: Vec<u64>,
    pub now_plus_calls: u64,
    /// offsets handed out by `now_plus`
    pub given: Vec<u64>,
    pub now_plus_overflow: u64,
    pub stalls: u64,
    pub jumps: u64,
    pub non_monotone_answers: u64,
    rng: Rng,
    pub dig: Dig,
}

pub struct SimClock(pub Rc<RefCell<ClockState>>);

impl SimClock {
    pub fn new(sched: Sched) -> Rc<RefCell<ClockState>> {
        let seed = match sched {
            Sched::Cost { seed, .. } => seed,
            _ => 0,
        };
        Rc::new(RefCell::new(ClockState {
            sched,
            now_ns: EPOCH_NS,
            probes: 0,
            first_expired: None,
            cmps_at_expiry: None,
            asked: Vec::new(),
            now_plus_calls: 0,
            given: Vec::new(),
            now_plus_overflow: 0,
            stalls: 0,
            jumps: 0,
            non_monotone_answers: 0,
            rng: Rng::new(seed),
            dig: Dig::new(),
        }))
    }
}

impl ClockState {
    fn advance(&mut self) {
        if let Sched::Cost { profile, .. } = self.sched {
            // profiles: 0 = fine steps, 1 = coarse steps, 2 = stalls, 3 = jumps
            let r = self.rng.below(100);
            let step = match profile {
                0 => self.rng.below(50),
                1 => self.rng.below(5_000),
                2 => {
                    if r < 10 {
                        self.stalls += 1;
                        0
                    } else {
                        self.rng.below(200)
                    }
                }
                _ => {
                    if r < 4 {
                        self.jumps += 1;
                        1_000_000_000 + self.rng.below(5_000_000_000)
                    } else if r < 20 {
                        self.stalls += 1;
                        0
                    } else {
                        self.rng.below(1_000)
                    }
                }
            };
            self.now_ns = self.now_ns.saturating_add(step);
        }
    }
}

impl verif::Clock for SimClock {
    fn exceeded(&mut self, deadline: Instant) -> bool {
        let mut st = self.0.borrow_mut();
        let idx = st.probes;
        st.probes += 1;
        st.advance();
        let off = offset_of(deadline);
        if !st.asked.contains(&off) && st.asked.len() < 8 {
            st.asked.push(off);
        }
        let ans = match st.sched {
            Sched::Never => false,
            Sched::Indexed(k) => idx >= k,
            Sched::Cost { .. } => st.now_ns > off,
            Sched::Work { budget } => cmps() >= budget,
        };
        if ans {
            if st.first_expired.is_none() {
                st.first_expired = Some(idx);
                st.cmps_at_expiry = Some(cmps());
            }
        } else if st.first_expired.is_some() {
            st.non_monotone_answers += 1;
        }
        let now = st.now_ns;
        st.dig.add_all(&[1, idx, now, off, ans as u64]);
        ans
    }

    fn now_plus(&mut self, add: Duration) -> Option<Instant> {
        let mut st = self.0.borrow_mut();
        st.now_plus_calls += 1;
        st.advance();
        let ns = add.as_nanos();
        let now = st.now_ns;
        st.dig.add_all(&[2, now, ns as u64, (ns >> 64) as u64]);
        // same contract as Instant::checked_add: None on overflow
        let rv = if ns > u64::MAX as u128 {
            None
        } else {
            now.checked_add(ns as u64)
                .and_then(|t| base().checked_add(Duration::from_nanos(t)))
        };
        if rv.is_none() {
            st.now_plus_overflow += 1;
        } else if st.given.len() < 8 {
            st.given.push(now + ns as u64);
        }
        rv
    }
}

/// Installs a simulation context for the lifetime of the guard: strict mode,
/// a clock (optional) and a hasher configuration; resets the reach counters.
pub struct SimGuard {
    _private: (),
}

impl SimGuard {
    pub fn new(clock: Option<Rc<RefCell<ClockState>>>, hasher: (u8, u64)) -> SimGuard {
        verif::set_strict(true);
        verif::set_clock(clock.map(|c| Box::new(SimClock(c)) as Box<dyn verif::Clock>));
        verif::set_hasher(Some(hasher));
        verif::set_swap_repair(false);
        // which public entry point `diff_deadline` below goes through is part
        // of the case (two bits of the hasher key)
        ROUTE.with(|r| r.set(((hasher.1 >> 3) & 3) as u8));
        SimGuard { _private: () }
    }

    pub fn set_clock(&self, clock: Option<Rc<RefCell<ClockState>>>) {
        verif::set_clock(clock.map(|c| Box::new(SimClock(c)) as Box<dyn verif::Clock>));
    }

    pub fn set_hasher(&self, hasher: (u8, u64)) {
        verif::set_hasher(Some(hasher));
    }
}

impl Drop for SimGuard {
    fn drop(&mut self) {
        verif::set_clock(None);
        verif::set_hasher(None);
        verif::set_strict(false);
        verif::set_swap_repair(false);
    }
}

// ------------------------------------------------------------ counted elements

thread_local! {
    static CMPS: Cell<u64> = const { Cell::new(0) };
}

pub fn cmps() -> u64 {
    CMPS.with(|c| c.get())
}

pub fn reset_cmps() {
    CMPS.with(|c| c.set(0));
}

/// A `u32` whose equality test bumps a per-thread comparison counter.
#[derive(Clone, Copy, Debug, Eq, Hash, PartialOrd, Ord)]
pub struct Counted(pub u32);

impl PartialEq for Counted {
    fn eq(&self, other: &Counted) -> bool {
        CMPS.with(|c| c.set(c.get() + 1));
        self.0 == other.0
    }
}

pub fn counted(xs: &[u32]) -> Vec<Counted> {
    xs.iter().map(|&x| Counted(x)).collect()
}

/// A lookup that only answers inside its window and panics elsewhere (what a
/// lookup built over a sub-range does).
pub struct Win<'a, T> {
    pub data: &'a [T],
    pub range: Range<usize>,
}

impl<T> Index<usize> for Win<'_, T> {
    type Output = T;
    fn index(&self, index: usize) -> &T {
        if index < self.range.start || index >= self.range.end {
            panic!(
                "window lookup: index {} outside {}..{}",
                index, self.range.start, self.range.end
            );
        }
        &self.data[index]
    }
}

/// A lookup into a virtual sequence whose first item has index `base`.
pub struct Far<'a, T> {
    pub data: &'a [T],
    pub base: usize,
}

impl<T> Index<usize> for Far<'_, T> {
    type Output = T;
    fn index(&self, index: usize) -> &T {
        match index.checked_sub(self.base) {
            Some(i) if i < self.data.len() => &self.data[i],
            _ => panic!("far lookup: index {} outside {}..{}", index, self.base, self.base + self.data.len()),
        }
    }
}

impl Call {
    /// Subtracts the index shifts of `Far` lookups.
    pub fn unshift(self, so: usize, sn: usize) -> Option<Call> {
        Some(match self {
            Call::Equal(o, n, l) => Call::Equal(o.checked_sub(so)?, n.checked_sub(sn)?, l),
            Call::Delete(o, l, n) => Call::Delete(o.checked_sub(so)?, l, n.checked_sub(sn)?),
            Call::Insert(o, n, l) => Call::Insert(o.checked_sub(so)?, n.checked_sub(sn)?, l),
            Call::Replace(o, ol, n, nl) => Call::Replace(o.checked_sub(so)?, ol, n.checked_sub(sn)?, nl),
            Call::Finish => Call::Finish,
        })
    }
}

// ------------------------------------------------------------- recording hook

#[derive(Clone, Copy, Debug, PartialEq, Eq, Serialize, Deserialize)]
pub enum Call {
    Equal(usize, usize, usize),
    Delete(usize, usize, usize),
    Insert(usize, usize, usize),
    Replace(usize, usize, usize, usize),
    Finish,
}

impl Call {
    pub fn code(&self) -> [u64; 5] {
        match *self {
            Call::Equal(a, b, c) => [1, a as u64, b as u64, c as u64, 0],
            Call::Delete(a, b, c) => [2, a as u64, b as u64, c as u64, 0],
            Call::Insert(a, b, c) => [3, a as u64, b as u64, c as u64, 0],
            Call::Replace(a, b, c, d) => [4, a as u64, b as u64, c as u64, d as u64],
            Call::Finish => [5, 0, 0, 0, 0],
        }
    }
}

#[derive(Clone, Copy, Debug, PartialEq, Eq)]
pub struct HookErr(pub usize);

/// Records every call, fails at call index `fail_at` with `HookErr(fail_at)`,
/// and monitors calls after `finish` and calls after a returned error.
/// `OVR` tells whether `replace` is overridden (false: the trait default
/// splits it into delete + insert).
#[derive(Debug, Default, Clone)]
pub struct RecHook<const OVR: bool> {
    pub calls: Vec<Call>,
    pub fail_at: Option<usize>,
    pub errored_at: Option<usize>,
    pub finished_at: Option<usize>,
    pub calls_after_error: usize,
    pub calls_after_finish: usize,
}

impl<const OVR: bool> RecHook<OVR> {
    pub fn new(fail_at: Option<usize>) -> Self {
        RecHook {
            calls: Vec::new(),
            fail_at,
            errored_at: None,
            finished_at: None,
            calls_after_error: 0,
            calls_after_finish: 0,
        }
    }

    fn record(&mut self, c: Call) -> Result<(), HookErr> {
        let idx = self.calls.len();
        if self.errored_at.is_some() {
            self.calls_after_error += 1;
        }
        if self.finished_at.is_some() {
            self.calls_after_finish += 1;
        }
        self.calls.push(c);
        if c == Call::Finish && self.finished_at.is_none() {
            self.finished_at = Some(idx);
        }
        if self.fail_at == Some(idx) {
            self.errored_at = Some(idx);
            return Err(HookErr(idx));
        }
        Ok(())
    }

    pub fn digest(&self, d: &mut Dig) {
        for c in &self.calls {
            d.add_all(&c.code());
        }
        d.add(self.errored_at.map_or(u64::MAX, |x| x as u64));
    }
}

impl DiffHook for RecHook<true> {
    type Error = HookErr;
    fn equal(&mut self, o: usize, n: usize, l: usize) -> Result<(), HookErr> {
        self.record(Call::Equal(o, n, l))
    }
    fn delete(&mut self, o: usize, l: usize, n: usize) -> Result<(), HookErr> {
        self.record(Call::Delete(o, l, n))
    }
    fn insert(&mut self, o: usize, n: usize, l: usize) -> Result<(), HookErr> {
        self.record(Call::Insert(o, n, l))
    }
    fn replace(&mut self, o: usize, ol: usize, n: usize, nl: usize) -> Result<(), HookErr> {
        self.record(Call::Replace(o, ol, n, nl))
    }
    fn finish(&mut self) -> Result<(), HookErr> {
        self.record(Call::Finish)
    }
}

impl DiffHook for RecHook<false> {
    type Error = HookErr;
    fn equal(&mut self, o: usize, n: usize, l: usize) -> Result<(), HookErr> {
        self.record(Call::Equal(o, n, l))
    }
    fn delete(&mut self, o: usize, l: usize, n: usize) -> Result<(), HookErr> {
        self.record(Call::Delete(o, l, n))
    }
    fn insert(&mut self, o: usize, n: usize, l: usize) -> Result<(), HookErr> {
        self.record(Call::Insert(o, n, l))
    }
    fn finish(&mut self) -> Result<(), HookErr> {
        self.record(Call::Finish)
    }
}

// ---------------------------------------------------------------- byte sink

#[derive(Clone, Debug, Serialize, Deserialize, PartialEq)]
pub struct WriterSched {
    /// 0 all-at-once, 1 byte-at-a-time, 2 random short, 3 EINTR heavy, 4 mixed
    pub kind: u8,
    pub seed: u64,
    /// hard fault (unjudged reach probe): 0 none, 1 Ok(0) at byte b, 2 ENOSPC
    /// at byte b, 3 WouldBlock at call c
    pub hard: u8,
    pub hard_at: u64,
    /// the sink implements `write_vectored` itself and may stop anywhere
    /// across the offered buffers
    #[serde(default)]
    pub vectored: bool,
}

#[derive(Debug)]
pub struct SimWriter {
    pub sched: WriterSched,
    rng: Rng,
    pub accepted: Vec<u8>,
    pub calls: u64,
    pub short_writes: u64,
    pub interrupts: u64,
    pub flushes: u64,
    pub vectored_calls: u64,
    pub hard_fired: bool,
    burst: u32,
    pub dig: Dig,
}

impl SimWriter {
    pub fn new(sched: WriterSched) -> SimWriter {
        let rng = Rng::new(sched.seed);
        SimWriter {
            sched,
            rng,
            accepted: Vec::new(),
            calls: 0,
            short_writes: 0,
            interrupts: 0,
            flushes: 0,
            vectored_calls: 0,
            hard_fired: false,
            burst: 0,
            dig: Dig::new(),
        }
    }

    fn maybe_interrupt(&mut self) -> bool {
        let p = match self.sched.kind {
            3 => 40,
            4 => 12,
            _ => 0,
        };
        // bounded bursts: never more than 3 EINTR in a row, so progress is
        // guaranteed (write_all retries Interrupted forever by contract)
        if p > 0 && self.burst < 3 && self.rng.below(100) < p {
            self.burst += 1;
            self.interrupts += 1;
            return true;
        }
        self.burst = 0;
        false
    }
}

impl io::Write for SimWriter {
    fn write(&mut self, buf: &[u8]) -> io::Result<usize> {
        let call = self.calls;
        self.calls += 1;
        if self.sched.hard == 3 && call == self.sched.hard_at && !self.hard_fired {
            self.hard_fired = true;
            self.dig.add_all(&[9, call]);
            return Err(io::Error::new(io::ErrorKind::WouldBlock, "sim: would block"));
        }
        if buf.is_empty() {
            self.dig.add_all(&[3, call, 0, 0]);
            return Ok(0);
        }
        if (self.sched.hard == 1 || self.sched.hard == 2)
            && self.accepted.len() as u64 >= self.sched.hard_at
        {
            self.hard_fired = true;
            self.dig.add_all(&[8, call]);
            return if self.sched.hard == 1 {
                Ok(0)
            } else {
                Err(io::Error::new(io::ErrorKind::Other, "sim: no space left"))
            };
        }
        if self.maybe_interrupt() {
            self.dig.add_all(&[4, call, buf.len() as u64]);
            return Err(io::Error::new(io::ErrorKind::Interrupted, "sim: EINTR"));
        }
        let mut n = match self.sched.kind {
            0 => buf.len(),
            1 => 1,
            _ => {
                if self.rng.chance(1, 3) {
                    buf.len()
                } else {
                    1 + self.rng.usize(buf.len())
                }
            }
        };
        if self.sched.hard == 1 || self.sched.hard == 2 {
            let room = (self.sched.hard_at - self.accepted.len() as u64) as usize;
            n = n.min(room.max(1));
        }
        if n < buf.len() {
            self.short_writes += 1;
        }
        self.accepted.extend_from_slice(&buf[..n]);
        self.dig.add_all(&[3, call, buf.len() as u64, n as u64]);
        Ok(n)
    }

    /// A sink that implements vectored writes itself (like a pipe or socket):
    /// it may accept any number of bytes across the offered buffers.
    fn write_vectored(&mut self, bufs: &[io::IoSlice<'_>]) -> io::Result<usize> {
        let total: usize = bufs.iter().map(|b| b.len()).sum();
        if !self.sched.vectored || total == 0 || self.sched.hard != 0 {
            // std's default: the first non-empty buffer only
            let buf = bufs.iter().find(|b| !b.is_empty()).map_or(&[][..], |b| &**b);
            return io::Write::write(self, buf);
        }
        let call = self.calls;
        self.calls += 1;
        if self.maybe_interrupt() {
            self.dig.add_all(&[4, call, total as u64]);
            return Err(io::Error::new(io::ErrorKind::Interrupted, "sim: EINTR"));
        }
        let n = if self.rng.chance(1, 4) { total } else { 1 + self.rng.usize(total) };
        if n < total {
            self.short_writes += 1;
        }
        let mut left = n;
        for b in bufs {
            let take = left.min(b.len());
            self.accepted.extend_from_slice(&b[..take]);
            left -= take;
            if left == 0 {
                break;
            }
        }
        self.vectored_calls += 1;
        self.dig.add_all(&[5, call, total as u64, n as u64]);
        Ok(n)
    }

    fn flush(&mut self) -> io::Result<()> {
        // flushing is not a fault point: C05 says nothing about flush, and an
        // implementation that flushes (or does not) is equally correct
        self.flushes += 1;
        Ok(())
    }
}

// ------------------------------------------------------------ hasher configs

pub const HASHER_KINDS: [&str; 5] = ["keyed", "degenerate", "low_entropy", "reversed", "rotated"];

/// Draws a hasher configuration. `allow_degenerate` is false for large inputs
/// (an all-colliding hasher makes every map quadratic).
pub fn draw_hasher(rng: &mut Rng, allow_degenerate: bool) -> (u8, u64) {
    let kind = if allow_degenerate {
        rng.weighted(&[5, 1, 1, 2, 1]) as u8
    } else {
        *rng.pick(&[0u8, 0, 0, 3, 4])
    };
    (kind, rng.next())
}

thread_local! {
    static ROUTE: std::cell::Cell<u8> = std::cell::Cell::new(0);
    static ROUTE_USE: std::cell::Cell<[u64; 3]> = std::cell::Cell::new([0; 3]);
}

/// How often each route was taken since the last call: (dispatcher with a
/// deadline argument, `algorithms::diff`, module-level functions).
pub fn take_route_use() -> [u64; 3] {
    ROUTE_USE.with(|r| r.replace([0; 3]))
}

/// The raw diff entry points of the crate behind one signature: the dispatcher
/// `algorithms::diff_deadline` (routes 0 and 1), `algorithms::diff` when there
/// is no deadline (route 2), or the functions of the algorithm's own module,
/// `myers::diff` / `myers::diff_deadline` and so on (route 3).
pub fn diff_deadline<Old, New, D>(
    alg: similar::Algorithm,
    d: &mut D,
    old: &Old,
    old_range: std::ops::Range<usize>,
    new: &New,
    new_range: std::ops::Range<usize>,
    deadline: Option<std::time::Instant>,
) -> Result<(), D::Error>
where
    Old: Index<usize> + ?Sized,
    New: Index<usize> + ?Sized,
    D: similar::algorithms::DiffHook,
    Old::Output: std::hash::Hash + Eq + Ord,
    New::Output: PartialEq<Old::Output> + std::hash::Hash + Eq + Ord,
{
    use similar::algorithms::{self, lcs, myers, patience};
    use similar::Algorithm;
    let route = ROUTE.with(|r| r.get());
    let bump = |i: usize| {
        ROUTE_USE.with(|r| {
            let mut v = r.get();
            v[i] += 1;
            r.set(v);
        })
    };
    match (route, deadline) {
        (2, None) => {
            bump(1);
            algorithms::diff(alg, d, old, old_range, new, new_range)
        }
        (3, None) => {
            bump(2);
            match alg {
                Algorithm::Myers => myers::diff(d, old, old_range, new, new_range),
                Algorithm::Patience => patience::diff(d, old, old_range, new, new_range),
                Algorithm::Lcs => lcs::diff(d, old, old_range, new, new_range),
            }
        }
        (3, Some(_)) => {
            bump(2);
            match alg {
                Algorithm::Myers => myers::diff_deadline(d, old, old_range, new, new_range, deadline),
                Algorithm::Patience => patience::diff_deadline(d, old, old_range, new, new_range, deadline),
                Algorithm::Lcs => lcs::diff_deadline(d, old, old_range, new, new_range, deadline),
            }
        }
        _ => {
            bump(0);
            algorithms::diff_deadline(alg, d, old, old_range, new, new_range, deadline)
        }
    }
}
