//! User-side implementations of the public `DiffableStr` trait whose equality
//! is not byte equality of `as_bytes()`: a token carrying a tag (finer than
//! its bytes) and a case-insensitive token (coarser than its bytes).  Used as
//! whole tokens through `TextDiffConfig::diff_slices`.

use std::borrow::Cow;
use std::cmp::Ordering;
use std::hash::{Hash, Hasher};
use std::ops::Range;

use similar::DiffableStr;

/// Two tokens are equal if tag and text are equal; the raw bytes only expose
/// the text.
#[derive(Debug, Clone, PartialEq, Eq, Hash, PartialOrd, Ord)]
pub struct Tagged {
    pub tag: u8,
    pub text: String,
}

/// A token that compares (and hashes, and orders) case-insensitively.
#[derive(Debug, Clone)]
pub struct NoCase(pub String);

impl NoCase {
    fn key(&self) -> String {
        self.0.to_lowercase()
    }
}

impl PartialEq for NoCase {
    fn eq(&self, other: &Self) -> bool {
        self.key() == other.key()
    }
}
impl Eq for NoCase {}
impl Hash for NoCase {
    fn hash<H: Hasher>(&self, state: &mut H) {
        self.key().hash(state)
    }
}
impl PartialOrd for NoCase {
    fn partial_cmp(&self, other: &Self) -> Option<Ordering> {
        Some(self.cmp(other))
    }
}
impl Ord for NoCase {
    fn cmp(&self, other: &Self) -> Ordering {
        self.key().cmp(&other.key())
    }
}

impl Tagged {
    fn text(&self) -> &String {
        &self.text
    }
}
impl NoCase {
    fn text(&self) -> &String {
        &self.0
    }
}

macro_rules! impl_diffable {
    ($ty:ty) => {
        impl DiffableStr for $ty {
            fn tokenize_lines(&self) -> Vec<&Self> {
                vec![self]
            }
            fn tokenize_lines_and_newlines(&self) -> Vec<&Self> {
                vec![self]
            }
            fn tokenize_words(&self) -> Vec<&Self> {
                vec![self]
            }
            fn tokenize_chars(&self) -> Vec<&Self> {
                vec![self]
            }
            #[cfg(feature = "unicode")]
            fn tokenize_unicode_words(&self) -> Vec<&Self> {
                vec![self]
            }
            #[cfg(feature = "unicode")]
            fn tokenize_graphemes(&self) -> Vec<&Self> {
                vec![self]
            }
            fn as_str(&self) -> Option<&str> {
                Some(self.text().as_str())
            }
            fn to_string_lossy(&self) -> Cow<'_, str> {
                Cow::Borrowed(self.text().as_str())
            }
            fn ends_with_newline(&self) -> bool {
                self.text().ends_with('\n')
            }
            fn len(&self) -> usize {
                self.text().len()
            }
            fn slice(&self, _rng: Range<usize>) -> &Self {
                self
            }
            fn as_bytes(&self) -> &[u8] {
                self.text().as_bytes()
            }
        }
    };
}

impl_diffable!(Tagged);
impl_diffable!(NoCase);

/// Symbol -> token; unequal symbols 2k / 2k+1 share their bytes.
pub fn tagged(x: u32) -> Tagged {
    Tagged {
        tag: (x % 2) as u8,
        text: format!("t{}", x / 2),
    }
}

/// Symbol at position i -> token; the same symbol comes in varying case.
pub fn nocase(x: u32, i: usize) -> NoCase {
    let w = format!("Word{}x", x);
    NoCase(match (i + x as usize) % 3 {
        0 => w.to_uppercase(),
        1 => w.to_lowercase(),
        _ => w,
    })
}

/// An unsized, case-insensitive (ASCII) view of a `str`: a user-side text
/// type that tokenizes like `str` but whose `Eq`/`Hash`/`Ord` are coarser than
/// byte equality.
#[repr(transparent)]
pub struct Ci(str);

impl Ci {
    pub fn new(s: &str) -> &Ci {
        // SAFETY: Ci is a transparent wrapper around str
        unsafe { &*(s as *const str as *const Ci) }
    }
}

impl std::fmt::Debug for Ci {
    fn fmt(&self, f: &mut std::fmt::Formatter<'_>) -> std::fmt::Result {
        std::fmt::Debug::fmt(&self.0, f)
    }
}

#[derive(Debug, Clone)]
pub struct CiBuf(String);

impl std::borrow::Borrow<Ci> for CiBuf {
    fn borrow(&self) -> &Ci {
        Ci::new(&self.0)
    }
}

impl ToOwned for Ci {
    type Owned = CiBuf;
    fn to_owned(&self) -> CiBuf {
        CiBuf(self.0.to_owned())
    }
}

impl PartialEq for Ci {
    fn eq(&self, other: &Self) -> bool {
        self.0.eq_ignore_ascii_case(&other.0)
    }
}
impl Eq for Ci {}
impl Hash for Ci {
    fn hash<H: Hasher>(&self, state: &mut H) {
        for b in self.0.bytes() {
            state.write_u8(b.to_ascii_lowercase());
        }
        state.write_u8(0xff);
    }
}
impl PartialOrd for Ci {
    fn partial_cmp(&self, other: &Self) -> Option<Ordering> {
        Some(self.cmp(other))
    }
}
impl Ord for Ci {
    fn cmp(&self, other: &Self) -> Ordering {
        self.0
            .bytes()
            .map(|b| b.to_ascii_lowercase())
            .cmp(other.0.bytes().map(|b| b.to_ascii_lowercase()))
    }
}

fn wrap(v: Vec<&str>) -> Vec<&Ci> {
    v.into_iter().map(Ci::new).collect()
}

impl DiffableStr for Ci {
    fn tokenize_lines(&self) -> Vec<&Self> {
        wrap(self.0.tokenize_lines())
    }
    fn tokenize_lines_and_newlines(&self) -> Vec<&Self> {
        wrap(self.0.tokenize_lines_and_newlines())
    }
    fn tokenize_words(&self) -> Vec<&Self> {
        wrap(self.0.tokenize_words())
    }
    fn tokenize_chars(&self) -> Vec<&Self> {
        wrap(self.0.tokenize_chars())
    }
    #[cfg(feature = "unicode")]
    fn tokenize_unicode_words(&self) -> Vec<&Self> {
        wrap(self.0.tokenize_unicode_words())
    }
    #[cfg(feature = "unicode")]
    fn tokenize_graphemes(&self) -> Vec<&Self> {
        wrap(self.0.tokenize_graphemes())
    }
    fn as_str(&self) -> Option<&str> {
        Some(&self.0)
    }
    fn to_string_lossy(&self) -> Cow<'_, str> {
        Cow::Borrowed(&self.0)
    }
    fn ends_with_newline(&self) -> bool {
        self.0.ends_with(&['\r', '\n'][..])
    }
    fn len(&self) -> usize {
        self.0.len()
    }
    fn slice(&self, rng: Range<usize>) -> &Self {
        Ci::new(&self.0[rng])
    }
    fn as_bytes(&self) -> &[u8] {
        self.0.as_bytes()
    }
}

/// A token whose trailing blanks do not count: equality is coarser than the
/// bytes AND equal tokens can have different lengths.
#[derive(Debug, Clone)]
pub struct Trimmed(pub String);

impl Trimmed {
    fn key(&self) -> &str {
        self.0.trim_end_matches(' ')
    }
    fn text(&self) -> &String {
        &self.0
    }
}

impl PartialEq for Trimmed {
    fn eq(&self, other: &Self) -> bool {
        self.key() == other.key()
    }
}
impl Eq for Trimmed {}
impl Hash for Trimmed {
    fn hash<H: Hasher>(&self, state: &mut H) {
        self.key().hash(state)
    }
}
impl PartialOrd for Trimmed {
    fn partial_cmp(&self, other: &Self) -> Option<Ordering> {
        Some(self.cmp(other))
    }
}
impl Ord for Trimmed {
    fn cmp(&self, other: &Self) -> Ordering {
        self.key().cmp(other.key())
    }
}

impl_diffable!(Trimmed);

/// Symbol at position i -> token with 0..=2 trailing blanks.
pub fn trimmed(x: u32, i: usize) -> Trimmed {
    Trimmed(format!("tok{}{}", x, " ".repeat((i + x as usize) % 3)))
}

/// An unsized view of a `str` whose `len()` / `slice()` unit is the character,
/// not the byte (equality, hashing and order are those of the text).
#[repr(transparent)]
#[derive(PartialEq, Eq, Hash, PartialOrd, Ord)]
pub struct Cu(str);

impl Cu {
    pub fn new(s: &str) -> &Cu {
        // SAFETY: Cu is a transparent wrapper around str
        unsafe { &*(s as *const str as *const Cu) }
    }
}

impl std::fmt::Debug for Cu {
    fn fmt(&self, f: &mut std::fmt::Formatter<'_>) -> std::fmt::Result {
        std::fmt::Debug::fmt(&self.0, f)
    }
}

#[derive(Debug, Clone)]
pub struct CuBuf(String);

impl std::borrow::Borrow<Cu> for CuBuf {
    fn borrow(&self) -> &Cu {
        Cu::new(&self.0)
    }
}

impl ToOwned for Cu {
    type Owned = CuBuf;
    fn to_owned(&self) -> CuBuf {
        CuBuf(self.0.to_owned())
    }
}

fn wrap_cu(v: Vec<&str>) -> Vec<&Cu> {
    v.into_iter().map(Cu::new).collect()
}

impl DiffableStr for Cu {
    fn tokenize_lines(&self) -> Vec<&Self> {
        wrap_cu(self.0.tokenize_lines())
    }
    fn tokenize_lines_and_newlines(&self) -> Vec<&Self> {
        wrap_cu(self.0.tokenize_lines_and_newlines())
    }
    fn tokenize_words(&self) -> Vec<&Self> {
        wrap_cu(self.0.tokenize_words())
    }
    fn tokenize_chars(&self) -> Vec<&Self> {
        wrap_cu(self.0.tokenize_chars())
    }
    #[cfg(feature = "unicode")]
    fn tokenize_unicode_words(&self) -> Vec<&Self> {
        wrap_cu(self.0.tokenize_unicode_words())
    }
    #[cfg(feature = "unicode")]
    fn tokenize_graphemes(&self) -> Vec<&Self> {
        wrap_cu(self.0.tokenize_graphemes())
    }
    fn as_str(&self) -> Option<&str> {
        Some(&self.0)
    }
    fn to_string_lossy(&self) -> Cow<'_, str> {
        Cow::Borrowed(&self.0)
    }
    fn ends_with_newline(&self) -> bool {
        self.0.ends_with(&['\r', '\n'][..])
    }
    fn len(&self) -> usize {
        self.0.chars().count()
    }
    fn slice(&self, rng: Range<usize>) -> &Self {
        let at = |c: usize| self.0.char_indices().nth(c).map(|(i, _)| i).unwrap_or(self.0.len());
        assert!(rng.end <= self.0.chars().count(), "slice({:?}) on a text of {} chars", rng, self.0.chars().count());
        Cu::new(&self.0[at(rng.start)..at(rng.end)])
    }
    fn as_bytes(&self) -> &[u8] {
        self.0.as_bytes()
    }
}
