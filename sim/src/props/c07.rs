//! C07 — deadline expiry at any probe still yields a valid diff, promptly; a
//! never-expiring deadline equals no deadline; deadlines are plumbed.

use std::time::Duration;

use serde::{Deserialize, Serialize};
use serde_json::{json, Value};
use crate::simenv::diff_deadline;
use similar::algorithms::IdentifyDistinct;
use similar::{capture_diff_deadline, TextDiff};

use crate::engine::{guarded, Agg, Prop, RunOut, Tier};
use crate::gen::{gen_seq_case, shrink_seq, Alg, IndexKind, SeqCase, Size};
use crate::oracle::{fail, ops_of, walk_ops, walk_raw, Fail, Op};
use crate::prng::{Dig, Rng};
use crate::simenv::{
    cmps, counted, instant_at, reset_cmps, Call, ClockState, HookErr, RecHook, Sched, SimClock,
    SimGuard, EPOCH_NS,
};
use crate::with_lookups;

/// the absolute deadline used with indexed schedules (virtual ns)
pub const DL: u64 = EPOCH_NS + 5_000_000;

/// Promptness constant: comparisons after the first expired probe must stay
/// below `PROMPT_C * (N + M + 1)`.  Calibrated on the unchanged tree (see
/// DESIGN.md §4/C07): observed maximum ratio is below 2.1 over all families;
/// the bound is about 4x that.
pub const PROMPT_C: u64 = 8;

/// Additive slack of the work-clock bound (comparisons).
pub const WORK_SLACK: u64 = 4096;

#[derive(Clone, Debug, Serialize, Deserialize, PartialEq)]
pub enum Entry {
    /// algorithms::diff_deadline with a recording hook
    Raw,
    /// capture_diff_deadline
    Capture,
    /// algorithms::diff_slices_deadline on the extracted slices
    RawSlices,
    /// capture_diff_slices_deadline on the extracted slices
    CaptureSlices,
    /// TextDiff::configure().deadline(t) over token slices / joined lines
    BuilderDeadline { lines: bool },
    /// TextDiff::configure().timeout(d), indexed schedule
    BuilderTimeout { lines: bool, nanos: u64 },
    /// both setters on one builder; the one called last must be in force
    /// (`abs_last`: timeout(d) then deadline(t); otherwise deadline(t') then
    /// timeout(d))
    BuilderOverride { abs_last: bool, nanos: u64 },
    /// Does the deadline reach the algorithm through this wrapper at this
    /// input size?  A group of sub-cases of one size bucket; among those where
    /// the deadline observably matters for the bare algorithm (expired from
    /// the first check on gives another stream than no deadline) the wrapper
    /// must consult the clock in at least one.  Judging a group instead of
    /// single cases leaves wrappers free to trim, shortcut or add checks.
    PlumbingGroup {
        wrapper: Wrapper,
        bucket: u8,
        seeds: Vec<u64>,
    },
    /// one configured builder (`timeout(d)`) used for two diffs while virtual
    /// time jumps forward by more than `d` in between: the timeout is relative
    /// to each diff, so both must give the no-deadline result
    BuilderReuse { nanos: u64, gap_ns: u64 },
    /// The shipped, non-simulated time arithmetic below the seam, in the only
    /// configurations whose outcome does not depend on what the real clock
    /// reads: a deadline in the past (must equal simulated expiry at probe 0),
    /// a deadline an hour ahead (must equal no deadline), and timeouts too
    /// large for an `Instant` (must mean no deadline, not a panic).
    RealClock { kinds: Vec<RealKind> },
    /// Work clock on unrelated inputs: virtual time is the number of element
    /// comparisons made, so time runs out *between* two deadline checks.  For
    /// inputs over disjoint alphabets the correct code does at most about one
    /// row / one D-iteration (<= N+M+4 comparisons) between two checks, so
    /// the work after the true expiry instant must stay linear.
    WorkClock { budgets_permille: Vec<u32> },
    /// TextDiff::configure().timeout(d) under the cost-model clock
    CostTimeout { dur: DurKind, seed: u64, profile: u8 },
}

#[derive(Clone, Copy, Debug, Serialize, Deserialize, PartialEq)]
pub enum Wrapper {
    RawSlices,
    Capture,
    CaptureSlices,
    BuilderDeadlineSlices,
    BuilderDeadlineLines,
    BuilderTimeoutSlices,
}

#[derive(Clone, Copy, Debug, Serialize, Deserialize, PartialEq)]
pub enum RealKind {
    Past,
    FarFuture,
    TimeoutMax,
    TimeoutHugeSecs,
    /// `timeout(Duration::ZERO)`: the deadline is "now", so it must fire at
    /// one of the first checks (judged only on inputs with hundreds of
    /// checks, where the no-deadline result cannot come out otherwise)
    TimeoutZero,
}

#[derive(Clone, Copy, Debug, Serialize, Deserialize, PartialEq)]
pub enum DurKind {
    Zero,
    OneNano,
    Nanos(u64),
    Max,
    /// (secs, nanos) of a timeout of centuries: at or just above a power of
    /// two of nanoseconds / microseconds / milliseconds, where a narrowing
    /// conversion wraps to (almost) nothing
    Huge(u64, u32),
}

impl DurKind {
    fn dur(self) -> Duration {
        match self {
            DurKind::Zero => Duration::ZERO,
            DurKind::OneNano => Duration::from_nanos(1),
            DurKind::Nanos(n) => Duration::from_nanos(n),
            DurKind::Max => Duration::MAX,
            DurKind::Huge(s, n) => Duration::new(s, n),
        }
    }
}

#[derive(Clone, Debug, Serialize, Deserialize)]
pub struct Case {
    pub seq: SeqCase,
    pub entry: Entry,
    /// fault points to execute; None = every k in 0..=K (subject to cap)
    pub only_k: Option<u64>,
    /// cap on enumerated fault points, with the seed for sampling beyond it
    pub cap: u64,
    pub sample_seed: u64,
    /// check the promptness bound (Raw entry, counted elements)
    pub prompt: bool,
}

pub struct RawRun {
    pub calls: Vec<Call>,
    pub result: Result<(), HookErr>,
    pub probes: u64,
    pub first_expired: Option<u64>,
    pub cmps_after: Option<u64>,
    pub cmps_at_probe: Option<u64>,
    /// element comparisons of the whole run
    pub total_cmps: u64,
    pub asked: Vec<u64>,
    pub none_probes: u64,
    pub clock_dig: u64,
    pub hits: [u64; similar::verif::HITS],
}

pub fn raw_exec(seq: &SeqCase, deadline: bool, sched: Sched) -> Result<RawRun, String> {
    raw_exec2(seq, false, deadline, sched)
}

/// `slices`: go through `algorithms::diff_slices(_deadline)` (full-range
/// slices only) instead of `diff(_deadline)`.
pub fn raw_exec2(seq: &SeqCase, slices: bool, deadline: bool, sched: Sched) -> Result<RawRun, String> {
    let oldc = counted(&seq.old);
    let newc = counted(&seq.new);
    let clock = SimClock::new(sched);
    let _guard = SimGuard::new(Some(clock.clone()), seq.hasher);
    let _ = similar::verif::take_hits();
    reset_cmps();
    let np0 = similar::verif::none_probes();
    let mut hook = RecHook::<true>::new(None);
    let dl = if deadline { Some(instant_at(DL)) } else { None };
    let alg = seq.alg.to();
    let res = guarded(|| {
        if slices {
            if deadline {
                similar::algorithms::diff_slices_deadline(alg, &mut hook, &oldc[..], &newc[..], dl)
            } else {
                similar::algorithms::diff_slices(alg, &mut hook, &oldc[..], &newc[..])
            }
        } else {
            with_lookups!(seq, oldc, newc, |o, n| diff_deadline(
                alg,
                &mut hook,
                o,
                seq.or_abs(),
                n,
                seq.nr_abs(),
                dl
            ))
        }
    });
    let total = cmps();
    let hits = similar::verif::take_hits();
    let st = clock.borrow();
    let result = res?;
    let (so, sn) = seq.shifts();
    let mut calls = Vec::with_capacity(hook.calls.len());
    for c in hook.calls {
        match c.unshift(so, sn) {
            Some(c) => calls.push(c),
            None => return Err(format!("{:?} reports an index below the start of the caller's sequence", c)),
        }
    }
    Ok(RawRun {
        calls,
        result,
        probes: st.probes,
        first_expired: st.first_expired,
        cmps_after: st.cmps_at_expiry.map(|c| total - c),
        cmps_at_probe: st.cmps_at_expiry,
        total_cmps: total,
        asked: st.asked.clone(),
        none_probes: similar::verif::none_probes() - np0,
        clock_dig: st.dig.finish(),
        hits,
    })
}

pub struct CapRun {
    pub ops: Vec<Op>,
    pub probes: u64,
    pub first_expired: Option<u64>,
    pub asked: Vec<u64>,
    pub given: Vec<u64>,
    pub now_plus_calls: u64,
    pub now_plus_overflow: u64,
    pub none_probes: u64,
    pub clock_dig: u64,
    pub stalls: u64,
    pub jumps: u64,
    pub virt_ns: u64,
    pub non_monotone: u64,
    pub hits: [u64; similar::verif::HITS],
}

fn cap_from(ops: Vec<Op>, st: &ClockState, np0: u64) -> CapRun {
    CapRun {
        ops,
        probes: st.probes,
        first_expired: st.first_expired,
        asked: st.asked.clone(),
        given: st.given.clone(),
        now_plus_calls: st.now_plus_calls,
        now_plus_overflow: st.now_plus_overflow,
        none_probes: similar::verif::none_probes() - np0,
        clock_dig: st.dig.finish(),
        stalls: st.stalls,
        jumps: st.jumps,
        virt_ns: st.now_ns - EPOCH_NS,
        non_monotone: st.non_monotone_answers,
        hits: similar::verif::take_hits(),
    }
}

pub fn capture_exec(seq: &SeqCase, deadline: bool, sched: Sched) -> Result<CapRun, String> {
    capture_exec2(seq, false, deadline, sched)
}

/// `slices`: go through `capture_diff_slices(_deadline)`.
pub fn capture_exec2(seq: &SeqCase, slices: bool, deadline: bool, sched: Sched) -> Result<CapRun, String> {
    let oldc = counted(&seq.old);
    let newc = counted(&seq.new);
    let clock = SimClock::new(sched);
    let _guard = SimGuard::new(Some(clock.clone()), seq.hasher);
    let _ = similar::verif::take_hits();
    let np0 = similar::verif::none_probes();
    let dl = if deadline { Some(instant_at(DL)) } else { None };
    let alg = seq.alg.to();
    let ops = guarded(|| {
        if slices {
            if deadline {
                similar::capture_diff_slices_deadline(alg, &oldc[..], &newc[..], dl)
            } else {
                similar::capture_diff_slices(alg, &oldc[..], &newc[..])
            }
        } else {
            with_lookups!(seq, oldc, newc, |o, n| capture_diff_deadline(
                alg,
                o,
                seq.or_abs(),
                n,
                seq.nr_abs(),
                dl
            ))
        }
    })?;
    let st = clock.borrow();
    let (so, sn) = seq.shifts();
    let ops = if slices {
        ops_of(&ops)
    } else {
        crate::oracle::unshift_ops(ops_of(&ops), so, sn)?
    };
    Ok(cap_from(ops, &st, np0))
}

fn tokens(xs: &[u32]) -> Vec<String> {
    xs.iter().map(|x| format!("w{}\n", x)).collect()
}

#[derive(Clone, Copy)]
pub enum Dl {
    None,
    Abs,
    Rel(Duration),
    /// deadline(other instant) first, then timeout(d)
    AbsThenRel(Duration),
    /// timeout(d) first, then deadline(DL)
    RelThenAbs(Duration),
}

/// The text-diff builder entry point on the core of the case.
pub fn builder_exec(seq: &SeqCase, lines: bool, dl: Dl, sched: Sched) -> Result<CapRun, String> {
    let ot = tokens(seq.old_core());
    let nt = tokens(seq.new_core());
    let clock = SimClock::new(sched);
    let _guard = SimGuard::new(Some(clock.clone()), seq.hasher);
    let _ = similar::verif::take_hits();
    let np0 = similar::verif::none_probes();
    let alg = seq.alg.to();
    let ops = guarded(|| {
        let mut cfg = TextDiff::configure();
        if seq.hasher.1 % 3 == 0 {
            // decoy first: the algorithm set last must be the one that runs
            cfg.algorithm(match alg {
                similar::Algorithm::Myers => similar::Algorithm::Lcs,
                _ => similar::Algorithm::Myers,
            });
        }
        cfg.algorithm(alg);
        match dl {
            Dl::None => {}
            Dl::Abs => {
                cfg.deadline(instant_at(DL));
            }
            Dl::Rel(d) => {
                cfg.timeout(d);
            }
            Dl::AbsThenRel(d) => {
                cfg.deadline(instant_at(DL + 777_777));
                cfg.timeout(d);
            }
            Dl::RelThenAbs(d) => {
                cfg.timeout(d);
                cfg.deadline(instant_at(DL));
            }
        }
        if lines {
            let o: String = ot.concat();
            let n: String = nt.concat();
            let diff = cfg.diff_lines(&o, &n);
            ops_of(diff.ops())
        } else {
            let o: Vec<&str> = ot.iter().map(|s| s.as_str()).collect();
            let n: Vec<&str> = nt.iter().map(|s| s.as_str()).collect();
            let diff = cfg.diff_slices(&o, &n);
            ops_of(diff.ops())
        }
    })?;
    let st = clock.borrow();
    Ok(cap_from(ops, &st, np0))
}

/// One configured builder used for two diffs, with virtual time jumping
/// forward by `gap_ns` in between.
pub fn builder_reuse_exec(
    seq: &SeqCase,
    nanos: u64,
    gap_ns: u64,
) -> Result<(Vec<Op>, Vec<Op>, CapRun), String> {
    let ot = tokens(seq.old_core());
    let nt = tokens(seq.new_core());
    let clock = SimClock::new(Sched::Cost { seed: gap_ns ^ nanos, profile: 0 });
    let _guard = SimGuard::new(Some(clock.clone()), seq.hasher);
    let _ = similar::verif::take_hits();
    let np0 = similar::verif::none_probes();
    let alg = seq.alg.to();
    let clock2 = clock.clone();
    let (a, b) = guarded(move || {
        let o: Vec<&str> = ot.iter().map(|s| s.as_str()).collect();
        let n: Vec<&str> = nt.iter().map(|s| s.as_str()).collect();
        let mut cfg = TextDiff::configure();
        cfg.algorithm(alg);
        cfg.timeout(Duration::from_nanos(nanos));
        let a = ops_of(cfg.diff_slices(&o, &n).ops());
        // time passes between the two uses of the configured builder
        {
            let mut st = clock2.borrow_mut();
            st.now_ns = st.now_ns.saturating_add(gap_ns);
            st.jumps += 1;
        }
        let b = ops_of(cfg.diff_slices(&o, &n).ops());
        (a, b)
    })?;
    let st = clock.borrow();
    Ok((a, b, cap_from(Vec::new(), &st, np0)))
}

/// What the builder must be equal to: the capture function on the same
/// tokens (through the integer mapping above 100 tokens, as the builder does).
pub fn direct_exec(seq: &SeqCase, deadline: bool, sched: Sched) -> Result<CapRun, String> {
    let ot = tokens(seq.old_core());
    let nt = tokens(seq.new_core());
    let o: Vec<&str> = ot.iter().map(|s| s.as_str()).collect();
    let n: Vec<&str> = nt.iter().map(|s| s.as_str()).collect();
    let clock = SimClock::new(sched);
    let _guard = SimGuard::new(Some(clock.clone()), seq.hasher);
    let _ = similar::verif::take_hits();
    let np0 = similar::verif::none_probes();
    let dl = if deadline { Some(instant_at(DL)) } else { None };
    let alg = seq.alg.to();
    let ops = guarded(|| {
        if o.len() > 100 || n.len() > 100 {
            let ih = IdentifyDistinct::<u32>::new(&o[..], 0..o.len(), &n[..], 0..n.len());
            capture_diff_deadline(
                alg,
                ih.old_lookup(),
                ih.old_range(),
                ih.new_lookup(),
                ih.new_range(),
                dl,
            )
        } else {
            capture_diff_deadline(alg, &o[..], 0..o.len(), &n[..], 0..n.len(), dl)
        }
    })?;
    let st = clock.borrow();
    Ok(cap_from(ops_of(&ops), &st, np0))
}

pub fn fault_points(k_max: u64, cap: u64, seed: u64, only: Option<u64>) -> Vec<u64> {
    if let Some(k) = only {
        return vec![k];
    }
    if k_max + 1 <= cap {
        return (0..=k_max).collect();
    }
    let mut ks = vec![0, 1, k_max.saturating_sub(1), k_max];
    let mut rng = Rng::new(seed);
    while (ks.len() as u64) < cap {
        ks.push(rng.below(k_max + 1));
    }
    ks.sort();
    ks.dedup();
    ks
}

fn digest_calls(d: &mut Dig, calls: &[Call]) {
    for c in calls {
        d.add_all(&c.code());
    }
}

fn digest_ops(d: &mut Dig, ops: &[Op]) {
    for c in ops {
        d.add_all(&c.code());
    }
}

pub struct C07;

pub const F_EXP0: usize = 0;
pub const F_EXPMID: usize = 1;
pub const F_NEVER: usize = 2;
pub const F_STALL: usize = 3;
pub const F_JUMP: usize = 4;
pub const F_OVERFLOW: usize = 5;
pub const F_ZERO: usize = 6;
pub const F_COSTEXP: usize = 7;
pub const F_WORK_EXPIRED: usize = 8;

impl C07 {
    fn exec_inner(&self, case: &Case, out: &mut RunOut) -> Result<(), Fail> {
        let core_holder;
        let slices = matches!(case.entry, Entry::RawSlices | Entry::CaptureSlices);
        let seq = if slices {
            core_holder = core_case(&case.seq);
            &core_holder
        } else {
            &case.seq
        };
        let mut dig = Dig::new();
        match &case.entry {
            Entry::Raw | Entry::RawSlices => {
                // reference: no deadline at all
                let none = raw_exec2(seq, slices, false, Sched::Never).map_err(|m| Fail {
                    clause: "c07.panic_no_deadline",
                    detail: m,
                })?;
                out.execs += 1;
                if none.probes != 0 {
                    return fail(
                        "c07.none_reads_no_clock",
                        format!("{} clock reads without a deadline", none.probes),
                    );
                }
                let dry = raw_exec2(seq, slices, true, Sched::Never).map_err(|m| Fail {
                    clause: "c07.panic",
                    detail: format!("never-expiring deadline: {}", m),
                })?;
                out.execs += 1;
                let kmax = dry.probes;
                out.gauge("max_probes_per_case", kmax);
                for k in fault_points(kmax, case.cap, case.sample_seed, case.only_k) {
                    let run = raw_exec2(seq, slices, true, Sched::Indexed(k)).map_err(|m| Fail {
                        clause: "c07.panic",
                        detail: format!("k={}: {}", k, m),
                    })?;
                    out.execs += 1;
                    let tag = |f: Fail| Fail {
                        clause: f.clause,
                        detail: format!("k={}: {}", k, f.detail),
                    };
                    crate::engine::trace(|| format!("raw {:?} k={} of K={}: probes={} first_expired={:?} cmps_after_expiry={:?} calls={:?}", seq.alg, k, kmax, run.probes, run.first_expired, run.cmps_after, run.calls));
                    if run.result.is_err() {
                        return fail("c07.ok", format!("k={}: diff returned an error", k));
                    }
                    walk_raw(&run.calls, &seq.old, &seq.new, seq.or(), seq.nr(), true)
                        .map_err(tag)?;
                    if run.asked.iter().any(|&a| a != DL) {
                        return fail(
                            "c07.deadline_forwarded",
                            format!("k={}: clock was asked about {:?}, configured {}", k, run.asked, DL),
                        );
                    }
                    if k >= kmax {
                        if run.calls != none.calls {
                            return fail(
                                "c07.never_expiring_equals_none",
                                format!("k={}: stream differs from the run without deadline", k),
                            );
                        }
                        out.faults[F_NEVER] += 1;
                        // a diff that never looks at its deadline cannot
                        // notice one that has run out before the start: then
                        // ALL its work is work after expiry
                        // (not under the colliding hashers: there the comparisons are
                        // made by the hash maps, quadratically, by construction)
                        if kmax == 0 && case.prompt && seq.index != IndexKind::Distinct && !matches!(seq.hasher.0, 1 | 2) {
                            let bound = PROMPT_C * (seq.n() + seq.m() + 1) as u64;
                            if run.total_cmps > bound {
                                return fail(
                                    "c07.prompt",
                                    format!(
                                        "k=0: the deadline is never checked, so one that expired before the start goes unnoticed for {} comparisons, bound {} (N={}, M={})",
                                        run.total_cmps, bound, seq.n(), seq.m()
                                    ),
                                );
                            }
                            out.count("diffs_that_never_check_their_deadline", 1);
                        }
                    } else {
                        if run.first_expired != Some(k) {
                            return fail(
                                "c07.raw_plumbing",
                                format!(
                                    "k={}: the deadline did not reach the algorithm as configured: {} probes seen, first expired {:?}, the algorithm alone makes {}",
                                    k, run.probes, run.first_expired, kmax
                                ),
                            );
                        }
                        out.faults[if k == 0 { F_EXP0 } else { F_EXPMID }] += 1;
                        if case.prompt && seq.index != IndexKind::Distinct {
                            let after = run.cmps_after.unwrap_or(0);
                            let bound = PROMPT_C * (seq.n() + seq.m() + 1) as u64;
                            out.gauge(
                                "max_cmps_after_expiry_x1000_per_nm1",
                                after * 1000 / (seq.n() + seq.m() + 1) as u64,
                            );
                            if after > bound {
                                return fail(
                                    "c07.prompt",
                                    format!(
                                        "k={}: {} comparisons after expiry, bound {} (N={}, M={})",
                                        k,
                                        after,
                                        bound,
                                        seq.n(),
                                        seq.m()
                                    ),
                                );
                            }
                        }
                        let mut d = Dig::new();
                        d.add_all(&[seq.alg.code(), k]);
                        digest_calls(&mut d, &run.calls);
                        out.nontrivial_digests.push(d.finish());
                        // reach bookkeeping
                        if run.hits[0] > 0 && run.hits[28] > 0 {
                            out.count("myers_fallback_after_split", 1);
                        }
                        if run.hits[2] > 0 && k > 0 && seq.alg == Alg::Lcs {
                            out.count("lcs_table_abandoned_after_row0", 1);
                        }
                        if seq.alg == Alg::Patience && run.hits[4] > 0 && run.hits[0] > 0 {
                            out.count("patience_inner_expired_after_anchor", 1);
                        }
                    }
                    dig.add(k);
                    digest_calls(&mut dig, &run.calls);
                    dig.add(run.clock_dig);
                    for i in 0..run.hits.len() {
                        out.hits[i] += run.hits[i];
                    }
                }
            }
            Entry::Capture | Entry::CaptureSlices => {
                let none = capture_exec2(seq, slices, false, Sched::Never).map_err(|m| Fail {
                    clause: "c07.panic_no_deadline",
                    detail: m,
                })?;
                let dry = capture_exec2(seq, slices, true, Sched::Never).map_err(|m| Fail {
                    clause: "c07.panic",
                    detail: m,
                })?;
                out.execs += 2;
                // the deadline reaches the algorithm: the capture function
                // checks the clock whenever the bare algorithm does (more
                // checks, or a different number of them, are the implementation's business)
                let kmax = dry.probes;
                out.gauge("max_probes_per_case", kmax);
                for k in fault_points(kmax, case.cap, case.sample_seed, case.only_k) {
                    let run = capture_exec2(seq, slices, true, Sched::Indexed(k)).map_err(|m| Fail {
                        clause: "c07.panic",
                        detail: format!("k={}: {}", k, m),
                    })?;
                    out.execs += 1;
                    crate::engine::trace(|| format!("capture {:?} k={} of K={}: probes={} first_expired={:?} ops={:?}", seq.alg, k, kmax, run.probes, run.first_expired, run.ops));
                    walk_ops(&run.ops, &seq.old, &seq.new, seq.or(), seq.nr()).map_err(|f| {
                        Fail {
                            clause: f.clause,
                            detail: format!("k={}: {}", k, f.detail),
                        }
                    })?;
                    if seq.old_core() == seq.new_core() {
                        if let Some(op) = run.ops.iter().find(|op| !op.is_equal()) {
                            return fail(
                                "c07.identical_only_equal",
                                format!("k={}: identical inputs produced {:?}", k, op),
                            );
                        }
                    }
                    let expect = if k < kmax { Some(k) } else { None };
                    if run.first_expired != expect || (k >= kmax && run.probes != kmax) {
                        return fail(
                            "c07.capture_plumbing",
                            format!(
                                "k={}: capture function saw {} probes, first expired {:?}; the algorithm alone makes {} probes",
                                k, run.probes, run.first_expired, kmax
                            ),
                        );
                    }
                    if run.asked.iter().any(|&a| a != DL) {
                        return fail(
                            "c07.deadline_forwarded",
                            format!("k={}: clock was asked about {:?}", k, run.asked),
                        );
                    }
                    if k >= kmax {
                        if run.ops != none.ops {
                            return fail(
                                "c07.never_expiring_equals_none",
                                format!("k={}: ops differ from the run without deadline", k),
                            );
                        }
                        out.faults[F_NEVER] += 1;
                    } else {
                        out.faults[if k == 0 { F_EXP0 } else { F_EXPMID }] += 1;
                        let mut d = Dig::new();
                        d.add_all(&[100 + seq.alg.code(), k]);
                        digest_ops(&mut d, &run.ops);
                        out.nontrivial_digests.push(d.finish());
                    }
                    dig.add(k);
                    digest_ops(&mut dig, &run.ops);
                    dig.add(run.clock_dig);
                    for i in 0..run.hits.len() {
                        out.hits[i] += run.hits[i];
                    }
                }
            }
            Entry::BuilderDeadline { .. }
            | Entry::BuilderTimeout { .. }
            | Entry::BuilderOverride { .. } => {
                let lines = &match case.entry {
                    Entry::BuilderDeadline { lines } | Entry::BuilderTimeout { lines, .. } => lines,
                    _ => false,
                };
                // `rel`: the relative timeout is what must be in force
                let rel = match case.entry {
                    Entry::BuilderTimeout { nanos, .. } => Some(nanos),
                    Entry::BuilderOverride {
                        abs_last: false,
                        nanos,
                    } => Some(nanos),
                    _ => None,
                };
                let core = core_case(seq);
                let none = builder_exec(&core, *lines, Dl::None, Sched::Never).map_err(|m| Fail {
                    clause: "c07.panic_no_deadline",
                    detail: m,
                })?;
                if none.probes != 0 || none.now_plus_calls != 0 {
                    return fail(
                        "c07.none_reads_no_clock",
                        format!("{} probes, {} now reads without a deadline", none.probes, none.now_plus_calls),
                    );
                }
                let dl_dry = match case.entry {
                    Entry::BuilderOverride { abs_last, nanos } => {
                        if abs_last {
                            Dl::RelThenAbs(Duration::from_nanos(nanos))
                        } else {
                            Dl::AbsThenRel(Duration::from_nanos(nanos))
                        }
                    }
                    _ => match rel {
                        Some(n) => Dl::Rel(Duration::from_nanos(n)),
                        None => Dl::Abs,
                    },
                };
                let dry = builder_exec(&core, *lines, dl_dry, Sched::Never).map_err(|m| Fail {
                    clause: "c07.panic",
                    detail: m,
                })?;
                out.execs += 3;
                let kmax = dry.probes;
                out.gauge("max_probes_per_case", kmax);
                for k in fault_points(kmax, case.cap, case.sample_seed, case.only_k) {
                    let dl = match case.entry {
                        Entry::BuilderOverride { abs_last, nanos } => {
                            if abs_last {
                                Dl::RelThenAbs(Duration::from_nanos(nanos))
                            } else {
                                Dl::AbsThenRel(Duration::from_nanos(nanos))
                            }
                        }
                        _ => match rel {
                            Some(n) => Dl::Rel(Duration::from_nanos(n)),
                            None => Dl::Abs,
                        },
                    };
                    let run = builder_exec(&core, *lines, dl, Sched::Indexed(k)).map_err(|m| Fail {
                        clause: "c07.panic",
                        detail: format!("k={}: {}", k, m),
                    })?;
                    out.execs += 1;
                    crate::engine::trace(|| format!("builder {:?} k={} of K={}: probes={} asked={:?} now_reads={} ops={:?}", core.alg, k, kmax, run.probes, run.asked, run.now_plus_calls, run.ops));
                    walk_ops(&run.ops, &core.old, &core.new, core.or(), core.nr()).map_err(|f| {
                        Fail {
                            clause: f.clause,
                            detail: format!("k={}: {}", k, f.detail),
                        }
                    })?;
                    let expect_deadline = match rel {
                        Some(n) => EPOCH_NS + n,
                        None => DL,
                    };
                    if matches!(case.entry, Entry::BuilderOverride { .. }) {
                        out.count("builder_both_setters", 1);
                    }
                    if run.now_plus_calls > 1
                        || (rel.is_some() && run.probes > 0 && run.now_plus_calls != 1)
                    {
                        return fail(
                            "c07.builder_plumbing",
                            format!("k={}: timeout converted {} times", k, run.now_plus_calls),
                        );
                    }
                    if run.asked.iter().any(|&a| a != expect_deadline)
                        || (kmax > 0 && run.asked.is_empty())
                    {
                        return fail(
                            "c07.builder_plumbing",
                            format!(
                                "k={}: the clock was asked about {:?}, the deadline in force is {}",
                                k, run.asked, expect_deadline
                            ),
                        );
                    }
                    if k >= kmax {
                        if run.ops != none.ops {
                            return fail(
                                "c07.never_expiring_equals_none",
                                format!("k={}: ops differ from the run without deadline", k),
                            );
                        }
                        out.faults[F_NEVER] += 1;
                    } else {
                        out.faults[if k == 0 { F_EXP0 } else { F_EXPMID }] += 1;
                        let mut d = Dig::new();
                        d.add_all(&[200 + seq.alg.code(), k]);
                        digest_ops(&mut d, &run.ops);
                        out.nontrivial_digests.push(d.finish());
                        if run.hits[24] > 0 {
                            out.count("builder_over_100_tokens_with_expiry", 1);
                        }
                    }
                    dig.add(k);
                    digest_ops(&mut dig, &run.ops);
                    dig.add(run.clock_dig);
                    for i in 0..run.hits.len() {
                        out.hits[i] += run.hits[i];
                    }
                }
            }
            Entry::WorkClock { budgets_permille } => {
                let dry = raw_exec(seq, true, Sched::Never).map_err(|m| Fail {
                    clause: "c07.panic",
                    detail: m,
                })?;
                out.execs += 1;
                // comparisons of the complete run
                let total = {
                    let oldc = counted(&seq.old);
                    let newc = counted(&seq.new);
                    let _g = SimGuard::new(Some(SimClock::new(Sched::Never)), seq.hasher);
                    reset_cmps();
                    let mut h = RecHook::<true>::new(None);
                    let alg = seq.alg.to();
                    let _ = guarded(|| {
                        with_lookups!(seq, oldc, newc, |o, n| diff_deadline(
                            alg,
                            &mut h,
                            o,
                            seq.or_abs(),
                            n,
                            seq.nr_abs(),
                            Some(instant_at(DL))
                        ))
                    });
                    cmps()
                };
                out.gauge("work_clock_max_total_cmps", total);
                for pm in budgets_permille {
                    let budget = total * (*pm as u64) / 1000;
                    let run = raw_exec(seq, true, Sched::Work { budget }).map_err(|m| Fail {
                        clause: "c07.panic",
                        detail: format!("work budget {}: {}", budget, m),
                    })?;
                    out.execs += 1;
                    walk_raw(&run.calls, &seq.old, &seq.new, seq.or(), seq.nr(), true).map_err(
                        |f| Fail {
                            clause: f.clause,
                            detail: format!("work budget {}: {}", budget, f.detail),
                        },
                    )?;
                    match (run.first_expired, run.cmps_after) {
                        (Some(_), Some(after_probe)) => {
                            // total comparisons of this run = comparisons at
                            // the expiring probe + after it
                            let st_total = after_probe + run.cmps_at_probe.unwrap_or(0);
                            let after_true_expiry = st_total.saturating_sub(budget);
                            // "a small constant multiple of N+M": an additive
                            // constant is allowed so that an implementation
                            // that checks the clock once per fixed amount of
                            // work (say every 2048 cells) is not flagged on
                            // small inputs
                            let bound = 4 * (seq.n() + seq.m() + 4) as u64 + WORK_SLACK;
                            out.gauge(
                                "work_clock_max_cmps_after_true_expiry_x1000_per_nm4",
                                after_true_expiry * 1000 / (seq.n() + seq.m() + 4) as u64,
                            );
                            crate::engine::trace(|| format!("work clock {:?} N={} M={}: time runs out after {} of {} comparisons; noticed at probe {:?} after {} comparisons; {} comparisons after the true expiry (bound {})", seq.alg, seq.n(), seq.m(), budget, total, run.first_expired, run.cmps_at_probe.unwrap_or(0), after_true_expiry, bound));
                            if after_true_expiry > bound {
                                return fail(
                                    "c07.prompt_between_checks",
                                    format!(
                                        "unrelated inputs N={} M={}: time ran out after {} comparisons, {} more were made ({} of them before the next deadline check), bound {}",
                                        seq.n(), seq.m(), budget, after_true_expiry,
                                        run.cmps_at_probe.unwrap_or(0).saturating_sub(budget), bound
                                    ),
                                );
                            }
                            out.faults[F_WORK_EXPIRED] += 1;
                            let mut d = Dig::new();
                            d.add_all(&[500 + seq.alg.code(), budget]);
                            digest_calls(&mut d, &run.calls);
                            out.nontrivial_digests.push(d.finish());
                        }
                        _ => {
                            if run.calls != dry.calls {
                                return fail(
                                    "c07.never_expiring_equals_none",
                                    format!("work budget {}: never expired but stream differs", budget),
                                );
                            }
                            // no deadline check came after the moment time
                            // ran out: whatever was done from then on is
                            // work after expiry all the same
                            let bound = 4 * (seq.n() + seq.m() + 4) as u64 + WORK_SLACK;
                            let after_true_expiry = run.total_cmps.saturating_sub(budget);
                            if after_true_expiry > bound {
                                return fail(
                                    "c07.prompt_between_checks",
                                    format!(
                                        "unrelated inputs N={} M={}: time ran out after {} comparisons, {} more were made and no deadline check followed, bound {}",
                                        seq.n(), seq.m(), budget, after_true_expiry, bound
                                    ),
                                );
                            }
                            if run.total_cmps > budget {
                                out.count("work_clock_expiry_after_the_last_check", 1);
                            }
                            out.faults[F_NEVER] += 1;
                        }
                    }
                    dig.add(budget);
                    digest_calls(&mut dig, &run.calls);
                }
            }
            Entry::PlumbingGroup {
                wrapper,
                bucket,
                seeds,
            } => {
                let mut matters = 0u32;
                let mut probed = 0u32;
                let mut witness = String::new();
                for &sd in seeds {
                    let mut r = Rng::new(sd);
                    let size = match bucket {
                        0 => Size::Small,
                        1 => Size::Medium,
                        _ => Size::Large,
                    };
                    let mut sub = gen_seq_case(&mut r, size, None);
                    if *bucket == 1 {
                        // keep the middle bucket between 41 and 100 tokens
                        while sub.n().max(sub.m()) < 41 || sub.n().max(sub.m()) > 100 {
                            sub = gen_seq_case(&mut r, size, None);
                        }
                    }
                    let sub = core_case(&sub);
                    let none = raw_exec(&sub, false, Sched::Never).map_err(|m| Fail {
                        clause: "c07.panic_no_deadline",
                        detail: m,
                    })?;
                    let expired = raw_exec(&sub, true, Sched::Indexed(0)).map_err(|m| Fail {
                        clause: "c07.panic",
                        detail: m,
                    })?;
                    out.execs += 2;
                    if expired.probes == 0 || expired.calls == none.calls {
                        continue;
                    }
                    matters += 1;
                    let pan = |m: String| Fail {
                        clause: "c07.panic",
                        detail: m,
                    };
                    let probes = match wrapper {
                        Wrapper::RawSlices => raw_exec2(&sub, true, true, Sched::Never).map_err(pan)?.probes,
                        Wrapper::Capture => capture_exec2(&sub, false, true, Sched::Never).map_err(pan)?.probes,
                        Wrapper::CaptureSlices => capture_exec2(&sub, true, true, Sched::Never).map_err(pan)?.probes,
                        Wrapper::BuilderDeadlineSlices => builder_exec(&sub, false, Dl::Abs, Sched::Never).map_err(pan)?.probes,
                        Wrapper::BuilderDeadlineLines => builder_exec(&sub, true, Dl::Abs, Sched::Never).map_err(pan)?.probes,
                        Wrapper::BuilderTimeoutSlices => builder_exec(&sub, false, Dl::Rel(Duration::from_secs(1)), Sched::Never).map_err(pan)?.probes,
                    };
                    out.execs += 1;
                    if probes > 0 {
                        probed += 1;
                    } else if witness.is_empty() {
                        witness = format!("{:?} old={:?} new={:?}", sub.alg, sub.old, sub.new);
                        witness.truncate(300);
                    }
                    dig.add_all(&[sd, probes]);
                }
                crate::engine::trace(|| format!("plumbing group {:?} bucket {}: deadline matters in {} of {} sub-cases, wrapper consulted the clock in {}", wrapper, bucket, matters, seeds.len(), probed));
                out.count("plumbing_groups", 1);
                if matters >= 4 && probed == 0 {
                    return fail(
                        match wrapper {
                            Wrapper::RawSlices => "c07.raw_plumbing",
                            Wrapper::Capture | Wrapper::CaptureSlices => "c07.capture_plumbing",
                            _ => "c07.builder_plumbing",
                        },
                        format!(
                            "{:?}, size bucket {}: in {} inputs the deadline changes what the bare algorithm returns, yet this entry point never consulted the clock in any of them (e.g. {})",
                            wrapper, bucket, matters, witness
                        ),
                    );
                }
            }
            Entry::BuilderReuse { nanos, gap_ns } => {
                let core = core_case(seq);
                let none = builder_exec(&core, false, Dl::None, Sched::Never).map_err(|m| Fail {
                    clause: "c07.panic_no_deadline",
                    detail: m,
                })?;
                let (a, b, run) = builder_reuse_exec(&core, *nanos, *gap_ns).map_err(|m| Fail {
                    clause: "c07.panic",
                    detail: format!("builder reuse: {}", m),
                })?;
                out.execs += 3;
                out.virt_ns += run.virt_ns;
                out.faults[F_JUMP] += run.jumps;
                crate::engine::trace(|| format!("builder reuse {:?}: timeout {} ns, {} ns pass between two diffs: now reads={} deadlines handed out={:?} asked={:?} first_expired={:?}", core.alg, nanos, gap_ns, run.now_plus_calls, run.given, run.asked, run.first_expired));
                walk_ops(&a, &core.old, &core.new, core.or(), core.nr())?;
                walk_ops(&b, &core.old, &core.new, core.or(), core.nr())?;
                if run.now_plus_calls > 2 || run.asked.iter().any(|x| !run.given.contains(x)) {
                    return fail(
                        "c07.timeout_relative_to_each_diff",
                        format!(
                            "timeout({} ns) on a builder used twice with {} ns in between: converted {} times (expected once per diff), deadlines handed out {:?}, asked {:?}",
                            nanos, gap_ns, run.now_plus_calls, run.given, run.asked
                        ),
                    );
                }
                if run.first_expired.is_none() && (a != none.ops || b != none.ops) {
                    return fail(
                        "c07.never_expiring_equals_none",
                        "reused builder: deadline never expired but ops differ from no deadline".into(),
                    );
                }
                if run.first_expired.is_some() {
                    return fail(
                        "c07.timeout_relative_to_each_diff",
                        format!(
                            "timeout({} ns) expired at probe {:?} although each diff takes far less virtual time ({} ns passed between the two diffs)",
                            nanos, run.first_expired, gap_ns
                        ),
                    );
                }
                out.count("builder_reused_across_time_jump", 1);
                digest_ops(&mut dig, &a);
                digest_ops(&mut dig, &b);
                dig.add(run.clock_dig);
            }
            Entry::RealClock { kinds } => {
              // a sequence of calls on one thread (state carried from one call
              // to the next inside the time code would show up here)
              for kind in kinds {
                let core = core_case(seq);
                let none = builder_exec(&core, false, Dl::None, Sched::Never).map_err(|m| Fail {
                    clause: "c07.panic_no_deadline",
                    detail: m,
                })?;
                // the same entry point under the simulated clock, expired from
                // the first check on
                let expired = builder_exec(&core, false, Dl::Abs, Sched::Indexed(0)).map_err(|m| Fail {
                    clause: "c07.panic",
                    detail: m,
                })?;
                // no simulated clock, not strict: the real seam code runs
                let ot = tokens(core.old_core());
                let nt = tokens(core.new_core());
                similar::verif::set_hasher(Some(core.hasher));
                let real = guarded(|| {
                    let o: Vec<&str> = ot.iter().map(|s| s.as_str()).collect();
                    let n: Vec<&str> = nt.iter().map(|s| s.as_str()).collect();
                    let mut cfg = TextDiff::configure();
                    cfg.algorithm(core.alg.to());
                    let t0 = instant_at(0);
                    match kind {
                        RealKind::Past => {
                            cfg.deadline(t0.checked_sub(Duration::from_secs(1)).unwrap_or(t0));
                        }
                        RealKind::FarFuture => {
                            cfg.deadline(std::time::Instant::now() + Duration::from_secs(3600));
                        }
                        RealKind::TimeoutMax => {
                            cfg.timeout(Duration::MAX);
                        }
                        RealKind::TimeoutHugeSecs => {
                            cfg.timeout(Duration::from_secs(u64::MAX));
                        }
                        RealKind::TimeoutZero => {
                            cfg.timeout(Duration::ZERO);
                        }
                    }
                    ops_of(cfg.diff_slices(&o, &n).ops())
                });
                similar::verif::set_hasher(None);
                out.execs += 3;
                let real = real.map_err(|m| Fail {
                    clause: "c07.real_clock_panic",
                    detail: format!("{:?}: {}", kind, m),
                })?;
                walk_ops(&real, &core.old, &core.new, core.or(), core.nr())?;
                if *kind == RealKind::TimeoutZero {
                    // judged only where it is decidable without knowing what
                    // the real clock read: hundreds of checks, and a result
                    // that expiry at any of the first checks changes
                    let dry = builder_exec(&core, false, Dl::Abs, Sched::Never).map_err(|m| Fail {
                        clause: "c07.panic",
                        detail: m,
                    })?;
                    out.execs += 1;
                    let early_differs = expired.ops != none.ops;
                    if dry.probes >= 200 && early_differs && none.ops.len() >= 8 {
                        out.count("real_clock_zero_timeout_judged", 1);
                        if real == none.ops {
                            return fail(
                                "c07.real_clock_seam",
                                format!(
                                    "timeout(Duration::ZERO) on the real clock gave the no-deadline result ({} ops) although the diff makes {} deadline checks",
                                    none.ops.len(),
                                    dry.probes
                                ),
                            );
                        }
                    }
                    digest_ops(&mut dig, &none.ops);
                    continue;
                }
                let expect = if *kind == RealKind::Past { &expired.ops } else { &none.ops };
                if &real != expect {
                    return fail(
                        "c07.real_clock_seam",
                        format!(
                            "{:?}: real-clock result {:?} differs from the simulated {} result {:?}",
                            kind,
                            real,
                            if *kind == RealKind::Past { "expired-at-probe-0" } else { "no-deadline" },
                            expect
                        ),
                    );
                }
                out.count("real_clock_passthrough", 1);
                if *kind == RealKind::Past && expired.probes > 0 {
                    let mut d = Dig::new();
                    d.add(400 + core.alg.code());
                    digest_ops(&mut d, &real);
                    out.nontrivial_digests.push(d.finish());
                    out.faults[F_EXP0] += 1;
                }
                digest_ops(&mut dig, &real);
              }
            }
            Entry::CostTimeout { dur, seed, profile } => {
                let core = core_case(seq);
                let none = builder_exec(&core, false, Dl::None, Sched::Never).map_err(|m| Fail {
                    clause: "c07.panic_no_deadline",
                    detail: m,
                })?;
                let sched = Sched::Cost {
                    seed: *seed,
                    profile: *profile,
                };
                let run = builder_exec(&core, false, Dl::Rel(dur.dur()), sched).map_err(|m| Fail {
                    clause: "c07.panic",
                    detail: format!("cost-model clock: {}", m),
                })?;
                out.execs += 2;
                out.virt_ns += run.virt_ns;
                out.faults[F_STALL] += run.stalls;
                out.faults[F_JUMP] += run.jumps;
                crate::engine::trace(|| format!("cost-model clock {:?}: timeout={:?} probes={} first_expired={:?} virtual_ns={} stalls={} jumps={} given={:?} asked={:?} ops={:?}", core.alg, dur, run.probes, run.first_expired, run.virt_ns, run.stalls, run.jumps, run.given, run.asked, run.ops));
                walk_ops(&run.ops, &core.old, &core.new, core.or(), core.nr())?;
                if run.non_monotone > 0 {
                    return fail(
                        "c07.harness_clock_monotone",
                        "simulated clock answered non-monotonically".into(),
                    );
                }
                if run.now_plus_calls > 1 {
                    return fail(
                        "c07.builder_plumbing",
                        format!("timeout converted {} times for one diff", run.now_plus_calls),
                    );
                }
                if *dur == DurKind::Max {
                    out.faults[F_OVERFLOW] += 1;
                    if run.probes != 0 || run.ops != none.ops {
                        return fail(
                            "c07.timeout_overflow_means_none",
                            format!(
                                "Duration::MAX: overflowed {} times, {} probes",
                                run.now_plus_overflow, run.probes
                            ),
                        );
                    }
                } else {
                    if run.asked.iter().any(|a| !run.given.contains(a)) {
                        return fail(
                            "c07.builder_plumbing",
                            format!("clock asked about {:?}, handed out {:?}", run.asked, run.given),
                        );
                    }
                    if *dur == DurKind::Zero {
                        out.faults[F_ZERO] += 1;
                    }
                    if let DurKind::Huge(..) = dur {
                        // centuries cannot pass inside one simulated diff
                        out.count("timeouts_of_centuries", 1);
                        if run.first_expired.is_some() || run.ops != none.ops {
                            return fail(
                                "c07.huge_timeout_means_never",
                                format!(
                                    "timeout {:?} ran out at probe {:?} after {} virtual ns (deadlines handed out: {:?})",
                                    dur.dur(), run.first_expired, run.virt_ns, run.given
                                ),
                            );
                        }
                    }
                }
                if run.first_expired.is_none() {
                    if run.ops != none.ops {
                        return fail(
                            "c07.never_expiring_equals_none",
                            "cost-model clock never expired but ops differ from no deadline".into(),
                        );
                    }
                    out.faults[F_NEVER] += 1;
                } else {
                    out.faults[F_COSTEXP] += 1;
                    let mut d = Dig::new();
                    d.add_all(&[300 + seq.alg.code(), run.first_expired.unwrap()]);
                    digest_ops(&mut d, &run.ops);
                    out.nontrivial_digests.push(d.finish());
                }
                digest_ops(&mut dig, &run.ops);
                dig.add(run.clock_dig);
                for i in 0..run.hits.len() {
                    out.hits[i] += run.hits[i];
                }
            }
        }
        out.digest = dig.finish();
        Ok(())
    }
}

/// The case restricted to its ranges, re-based at zero (builder entry points
/// have no range arguments).
pub fn core_case(seq: &SeqCase) -> SeqCase {
    let mut c = seq.clone();
    c.old = seq.old_core().to_vec();
    c.new = seq.new_core().to_vec();
    c.old_range = (0, c.old.len());
    c.new_range = (0, c.new.len());
    c.index = IndexKind::Slice;
    c
}

impl Prop for C07 {
    type Case = Case;

    fn id(&self) -> &'static str {
        "C07"
    }
    fn level(&self) -> &'static str {
        "fault_enumeration"
    }
    fn rule(&self) -> &'static str {
        "cases are drawn from the run seed (algorithm, sequence pair in one of 7 styles, sub-ranges, lookup kind, hasher, entry point); per case the deadline probes are counted (K) with a never-expiring virtual clock and EVERY k in 0..=K is executed with 'probe i answers i>=k' (beyond the cap: 0,1,K-1,K plus sampled). evaluations = executions of real code; a distinct non-trivial execution = distinct digest of (algorithm, k, resulting callback stream / ops) among executions in which the deadline actually expired (k<K)"
    }
    fn fault_names(&self) -> Vec<&'static str> {
        vec![
            "expiry_before_start(k=0)",
            "expiry_at_later_probe",
            "deadline_present_never_expires",
            "clock_stall",
            "clock_forward_jump",
            "timeout_overflow(Duration::MAX)",
            "timeout_zero",
            "expiry_under_cost_model_clock",
            "expiry_between_two_checks(work clock)",
        ]
    }
    fn components(&self) -> Value {
        json!({
            "real": ["similar::algorithms::{myers,patience,lcs}::diff_deadline", "Compact/Replace/Capture", "capture_diff_deadline", "TextDiffConfig::{deadline,timeout,diff_slices,diff_lines}", "IdentifyDistinct", "std HashMap (hashbrown)"],
            "simulated": ["clock (SimClock via cfg(similar_verif) seam in deadline_support)", "hasher (seeded BuildHasher)", "caller hook (recording DiffHook)", "sequence lookups (slice / window / IdentifyDistinct)"]
        })
    }
    fn assumptions(&self) -> Vec<&'static str> {
        vec![
            "the virtual clock is monotone (Instant contract)",
            "promptness constant PROMPT_C=8 comparisons per item after expiry, calibrated on the unchanged tree",
            "cases are sampled; fault points are enumerated completely per case up to the cap",
        ]
    }
    fn runs(&self, tier: Tier) -> u64 {
        match tier {
            Tier::Quick => 60_000,
            Tier::Thorough => 200_000,
        }
    }
    fn gen(&self, rng: &mut Rng, tier: Tier, idx: u64) -> Case {
        let size = match tier {
            Tier::Quick => match rng.weighted(&[700, 240, 57, 3]) {
                0 => Size::Small,
                1 => Size::Medium,
                2 => Size::Large,
                _ => Size::Huge(2600),
            },
            Tier::Thorough => match rng.weighted(&[55, 30, 12, 3]) {
                0 => Size::Small,
                1 => Size::Medium,
                2 => Size::Large,
                _ => Size::Huge(2000),
            },
        };
        let mut seq = gen_seq_case(rng, size, None);
        crate::gen::maybe_reverse_empty(rng, &mut seq);
        if matches!(size, Size::Huge(_)) && rng.chance(1, 2) {
            // a composite giant instead of a plain huge pair
            let (o, n) = crate::gen::gen_composite(rng);
            seq.old_range = (0, o.len());
            seq.new_range = (0, n.len());
            seq.old = o;
            seq.new = n;
            seq.index = IndexKind::Slice;
            if seq.alg == Alg::Lcs {
                seq.alg = Alg::Patience;
            }
        }
        if tier == Tier::Quick && matches!(size, Size::Huge(_)) && seq.alg == Alg::Lcs {
            // the quadratic table of LCS at this size belongs to the thorough tier
            seq.alg = Alg::Myers;
        }
        let entry_pick = rng.weighted(&[50, 20, 10, 8, 10, 4, 5, 5, 4, 6, 3, 4]);
        if entry_pick == 8 && rng.chance(1, 2) {
            // the zero-timeout judgement needs hundreds of checks
            let alg = *rng.pick(&[Alg::Myers, Alg::Patience]);
            seq = gen_seq_case(rng, Size::Large, Some(alg));
        }
        if entry_pick == 9 {
            // unrelated inputs, plain lookups, ordinary hasher
            // (an eighth of them large enough that 1% of an LCS table is more
            // than the additive slack of the bound)
            let big = rng.chance(1, 8);
            let (lo, hi) = match (tier, big) {
                (Tier::Quick, false) => (150, 500),
                (Tier::Quick, true) => (1200, 1800),
                (Tier::Thorough, false) => (150, 1500),
                (Tier::Thorough, true) => (1500, 3000),
            };
            if big {
                seq.alg = Alg::Lcs;
            }
            let n = rng.range(lo, hi);
            let m = rng.range(lo, hi);
            let (o, nn) = crate::gen::gen_disjoint(rng, n, m);
            seq.old = o;
            seq.new = nn;
            seq.old_range = (0, n);
            seq.new_range = (0, m);
            seq.index = IndexKind::Slice;
            seq.hasher = (0, rng.next());
        }
        let entry = match entry_pick {
            0 => Entry::Raw,
            1 => Entry::Capture,
            11 => Entry::PlumbingGroup {
                wrapper: *rng.pick(&[
                    Wrapper::RawSlices,
                    Wrapper::Capture,
                    Wrapper::CaptureSlices,
                    Wrapper::BuilderDeadlineSlices,
                    Wrapper::BuilderDeadlineLines,
                    Wrapper::BuilderTimeoutSlices,
                ]),
                bucket: rng.below(3) as u8,
                seeds: (0..14).map(|_| rng.next()).collect(),
            },
            10 => Entry::BuilderReuse {
                // a diff of these sizes makes < 20 000 probes of < 50 virtual
                // ns each: one virtual second cannot run out inside one diff
                nanos: 1_000_000_000 + rng.below(1_000_000_000),
                gap_ns: rng.below(5_000_000_000),
            },
            9 => Entry::WorkClock {
                // anywhere, plus one right at the start and one in the last
                // percent and a half of the work
                budgets_permille: (0..6)
                    .map(|i| match i {
                        4 => rng.below(30) as u32,
                        5 => 985 + rng.below(15) as u32,
                        _ => rng.below(1000) as u32,
                    })
                    .collect(),
            },
            8 => Entry::RealClock {
                kinds: {
                    let mut ks = vec![
                        RealKind::Past,
                        RealKind::FarFuture,
                        RealKind::TimeoutMax,
                        RealKind::TimeoutHugeSecs,
                        RealKind::Past,
                        RealKind::FarFuture,
                        RealKind::TimeoutZero,
                    ];
                    rng.shuffle(&mut ks);
                    ks
                },
            },
            6 => Entry::RawSlices,
            7 => Entry::CaptureSlices,
            2 => Entry::BuilderDeadline {
                lines: rng.chance(1, 2),
            },
            3 => Entry::BuilderTimeout {
                lines: rng.chance(1, 2),
                nanos: rng.below(10_000_000),
            },
            5 => Entry::BuilderOverride {
                abs_last: rng.chance(1, 2),
                nanos: rng.below(10_000_000),
            },
            4 => Entry::CostTimeout {
                dur: match rng.weighted(&[1, 1, 6, 1, 2]) {
                    4 => {
                        // 2^64 ns, us, ms (+ a little), multiples, and the
                        // largest values that still fit
                        let (s, n) = *rng.pick(&[
                            (18_446_744_073u64, 709_551_616u32),
                            (18_446_744_073, 709_551_615),
                            (36_893_488_147, 419_103_232),
                            (18_446_744_073_709, 551_616_000),
                            (18_446_744_073_709_551, 616_000_000),
                            (4_294_967_296, 0),
                            (4_294_967, 296_000_000),
                            (9_223_372_036, 854_775_808),
                        ]);
                        let extra = rng.below(2000) as u32;
                        DurKind::Huge(s, (n + extra).min(999_999_999))
                    }
                    0 => DurKind::Zero,
                    1 => DurKind::OneNano,
                    2 => {
                        let scale = match rng.below(3) {
                            0 => 200,
                            1 => 20_000,
                            _ => 3_000_000_000,
                        };
                        DurKind::Nanos(rng.below(scale))
                    }
                    _ => DurKind::Max,
                },
                seed: rng.next(),
                profile: rng.below(4) as u8,
            },
            _ => Entry::Raw,
        };
        // at fixed places of every batch: Patience over more than 2^16 unique
        // common items in one run (raw entry, a handful of expiry points)
        let anchor_giant = idx % 20_000 == 777;
        let entry = if anchor_giant {
            let (o, n) = crate::gen::gen_long_anchor_run(rng);
            seq.old_range = (0, o.len());
            seq.new_range = (0, n.len());
            seq.old = o;
            seq.new = n;
            seq.index = IndexKind::Slice;
            seq.alg = Alg::Patience;
            Entry::Raw
        } else {
            entry
        };
        let cap = match (tier, size) {
            _ if anchor_giant => 6,
            (Tier::Quick, Size::Small) | (Tier::Quick, Size::Medium) => 256,
            (Tier::Quick, Size::Huge(_)) => 5,
            (Tier::Quick, _) => 24,
            (Tier::Thorough, Size::Huge(_)) => 12,
            (Tier::Thorough, Size::Large) => 96,
            (Tier::Thorough, _) => 4096,
        };
        Case {
            seq,
            entry,
            only_k: None,
            cap,
            sample_seed: rng.next(),
            prompt: true,
        }
    }
    fn exec(&self, case: &Case) -> RunOut {
        let mut out = RunOut::default();
        let _ = crate::simenv::take_route_use();
        if let Err(f) = self.exec_inner(case, &mut out) {
            out.fail = Some(f);
        }
        let ru = crate::simenv::take_route_use();
        out.count("raw_diffs_via_algorithms::diff_deadline", ru[0]);
        out.count("raw_diffs_via_algorithms::diff(no deadline)", ru[1]);
        out.count("raw_diffs_via_module_level_functions(myers::diff etc.)", ru[2]);
        out
    }
    fn focus(&self, case: &Case, fail: &Fail) -> Case {
        let mut c = case.clone();
        if let Some(rest) = fail.detail.strip_prefix("k=") {
            if let Some(k) = rest.split(':').next().and_then(|s| s.parse().ok()) {
                c.only_k = Some(k);
            }
        }
        c
    }
    fn shrink(&self, case: &Case) -> Vec<Case> {
        let mut out = Vec::new();
        for s in shrink_seq(&case.seq) {
            // shrinking the input changes the probe count: re-enumerate
            let mut c = case.clone();
            c.seq = s;
            c.only_k = None;
            c.cap = 64;
            out.push(c);
        }
        if let Some(k) = case.only_k {
            for nk in [0, k / 2, k.saturating_sub(1)] {
                if nk < k {
                    let mut c = case.clone();
                    c.only_k = Some(nk);
                    out.push(c);
                }
            }
        }
        match &case.entry {
            Entry::Raw => {}
            Entry::Capture => {}
            Entry::BuilderDeadline { lines: true } => {
                let mut c = case.clone();
                c.entry = Entry::BuilderDeadline { lines: false };
                out.push(c);
            }
            Entry::BuilderTimeout { lines, nanos } => {
                if *lines {
                    let mut c = case.clone();
                    c.entry = Entry::BuilderTimeout {
                        lines: false,
                        nanos: *nanos,
                    };
                    out.push(c);
                }
                if *nanos > 1 {
                    let mut c = case.clone();
                    c.entry = Entry::BuilderTimeout {
                        lines: *lines,
                        nanos: 1,
                    };
                    out.push(c);
                }
            }
            Entry::CostTimeout { dur, seed, profile } => {
                if *profile != 0 {
                    let mut c = case.clone();
                    c.entry = Entry::CostTimeout {
                        dur: *dur,
                        seed: *seed,
                        profile: 0,
                    };
                    out.push(c);
                }
            }
            _ => {}
        }
        out
    }
    fn reach(&self, agg: &Agg) -> Vec<(&'static str, u64)> {
        let c = |k: &str| agg.counters.get(k).copied().unwrap_or(0);
        vec![
            ("raw_diffs_via_algorithms::diff(no deadline)", agg.counters.get("raw_diffs_via_algorithms::diff(no deadline)").copied().unwrap_or(0)),
            ("raw_diffs_via_module_level_functions", agg.counters.get("raw_diffs_via_module_level_functions(myers::diff etc.)").copied().unwrap_or(0)),
            ("myers_deadline_fallback", agg.hits[0]),
            ("myers_fallback_after_an_earlier_split", c("myers_fallback_after_split")),
            ("lcs_table_abandoned", agg.hits[2]),
            ("lcs_table_abandoned_after_row0", c("lcs_table_abandoned_after_row0")),
            ("patience_gap_diffs", agg.hits[4]),
            ("patience_inner_expired_after_anchor", c("patience_inner_expired_after_anchor")),
            ("builder_over_100_tokens", agg.hits[24]),
            ("builder_over_100_tokens_with_expiry", c("builder_over_100_tokens_with_expiry")),
            ("timeout_overflow_no_deadline", agg.faults[F_OVERFLOW]),
            ("builder_both_setters", c("builder_both_setters")),
            ("plumbing_groups", c("plumbing_groups")),
            ("real_clock_passthrough", c("real_clock_passthrough")),
            ("real_clock_zero_timeout_judged", c("real_clock_zero_timeout_judged")),
            ("expiry_between_two_checks", agg.faults[F_WORK_EXPIRED]),
            ("builder_reused_across_time_jump", c("builder_reused_across_time_jump")),
        ]
    }
}
