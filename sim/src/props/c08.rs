//! C08 — hook protocol: finish once and last; a hook error at any call index
//! aborts the diff with precisely that error and nothing follows.

use serde::{Deserialize, Serialize};
use serde_json::{json, Value};
use crate::simenv::diff_deadline;
use similar::algorithms::{Compact, NoFinishHook, Replace};

use crate::engine::{guarded, Agg, Prop, RunOut, Tier};
use crate::gen::{gen_seq_case, shrink_seq, SeqCase, Size};
use crate::oracle::{fail, Fail};
use crate::prng::{Dig, Rng};
use crate::props::c07::{fault_points, DL};
use crate::simenv::{
    counted, instant_at, Call, HookErr, RecHook, Sched, SimClock, SimGuard,
};
use crate::with_lookups;

#[derive(Clone, Copy, Debug, Serialize, Deserialize, PartialEq, Eq)]
pub enum Stack {
    H,
    ReplaceH,
    CompactH,
    CompactReplaceH,
    NoFinishH,
    RefMutH,
    ReplaceRefMutH,
    ReplaceHdefault,
    CompactReplaceHdefault,
    Hdefault,
    /// NoFinishHook receiving `replace` calls
    ReplaceNoFinishH,
    CompactReplaceNoFinishH,
}

pub const STACKS: [Stack; 12] = [
    Stack::H,
    Stack::ReplaceH,
    Stack::CompactH,
    Stack::CompactReplaceH,
    Stack::NoFinishH,
    Stack::RefMutH,
    Stack::ReplaceRefMutH,
    Stack::ReplaceHdefault,
    Stack::CompactReplaceHdefault,
    Stack::Hdefault,
    Stack::ReplaceNoFinishH,
    Stack::CompactReplaceNoFinishH,
];

#[derive(Clone, Debug, Serialize, Deserialize)]
pub struct Case {
    pub seq: SeqCase,
    pub stack: Stack,
    /// deadline expiry at this probe while hooks fail (None: no deadline)
    pub expire_at: Option<u64>,
    /// use the same adapter/hook object for three diffs in a row (the real
    /// one, one over two empty ranges, the real one again)
    #[serde(default)]
    pub reuse: bool,
    /// go through `algorithms::diff_slices(_deadline)` on the core slices
    /// instead of `diff_deadline` with ranges (the six stacks of
    /// `SLICE_STACKS` only)
    #[serde(default)]
    pub slices: bool,
    pub only_k: Option<u64>,
    pub cap: u64,
    pub sample_seed: u64,
}

pub struct StackRun {
    pub calls: Vec<Call>,
    pub result: Result<(), HookErr>,
    pub after_error: usize,
    pub after_finish: usize,
    pub errored_at: Option<usize>,
    pub hits: [u64; similar::verif::HITS],
}

fn collect<const O: bool>(
    h: RecHook<O>,
    r: Result<Result<(), HookErr>, String>,
) -> Result<StackRun, String> {
    let result = r?;
    Ok(StackRun {
        calls: h.calls,
        result,
        after_error: h.calls_after_error,
        after_finish: h.calls_after_finish,
        errored_at: h.errored_at,
        hits: similar::verif::take_hits(),
    })
}

pub fn run_stack(
    seq: &SeqCase,
    stack: Stack,
    fail_at: Option<usize>,
    expire_at: Option<u64>,
) -> Result<StackRun, String> {
    run_stack2(seq, stack, fail_at, expire_at, false)
}

/// Stacks whose adapter keeps no buffer beyond `finish` and can therefore be
/// used for several diffs in a row.
pub fn reusable(stack: Stack) -> bool {
    matches!(
        stack,
        Stack::H | Stack::Hdefault | Stack::RefMutH | Stack::ReplaceH | Stack::ReplaceHdefault | Stack::ReplaceRefMutH
    )
}

pub const SLICE_STACKS: [Stack; 6] = [
    Stack::H,
    Stack::ReplaceH,
    Stack::CompactH,
    Stack::CompactReplaceH,
    Stack::NoFinishH,
    Stack::Hdefault,
];

/// The slices entry points: `diff_slices` without a deadline,
/// `diff_slices_deadline` with one.
pub fn run_stack_slices(
    seq: &SeqCase,
    stack: Stack,
    fail_at: Option<usize>,
    expire_at: Option<u64>,
) -> Result<StackRun, String> {
    use similar::algorithms::{diff_slices, diff_slices_deadline};
    let oldc = counted(seq.old_core());
    let newc = counted(seq.new_core());
    let clock = SimClock::new(match expire_at {
        Some(k) => Sched::Indexed(k),
        None => Sched::Never,
    });
    let _guard = SimGuard::new(Some(clock), seq.hasher);
    let _ = similar::verif::take_hits();
    let dl = expire_at.map(|_| instant_at(DL));
    let alg = seq.alg.to();
    let (o, n) = (&oldc[..], &newc[..]);
    macro_rules! go {
        ($d:expr) => {
            match dl {
                Some(_) => diff_slices_deadline(alg, $d, o, n, dl),
                None => diff_slices(alg, $d, o, n),
            }
        };
    }
    match stack {
        Stack::ReplaceH => {
            let mut d = Replace::new(RecHook::<true>::new(fail_at));
            let r = guarded(|| go!(&mut d));
            collect(d.into_inner(), r)
        }
        Stack::CompactH => {
            let mut d = Compact::new(RecHook::<true>::new(fail_at), o, n);
            let r = guarded(|| go!(&mut d));
            collect(d.into_inner(), r)
        }
        Stack::CompactReplaceH => {
            let mut d = Compact::new(Replace::new(RecHook::<true>::new(fail_at)), o, n);
            let r = guarded(|| go!(&mut d));
            collect(d.into_inner().into_inner(), r)
        }
        Stack::NoFinishH => {
            let mut d = NoFinishHook::new(RecHook::<true>::new(fail_at));
            let r = guarded(|| go!(&mut d));
            collect(d.into_inner(), r)
        }
        Stack::Hdefault => {
            let mut h = RecHook::<false>::new(fail_at);
            let r = guarded(|| go!(&mut h));
            collect(h, r)
        }
        _ => {
            let mut h = RecHook::<true>::new(fail_at);
            let r = guarded(|| go!(&mut h));
            collect(h, r)
        }
    }
}

pub fn run_stack2(
    seq: &SeqCase,
    stack: Stack,
    fail_at: Option<usize>,
    expire_at: Option<u64>,
    reuse: bool,
) -> Result<StackRun, String> {
    let oldc = counted(&seq.old);
    let newc = counted(&seq.new);
    let clock = SimClock::new(match expire_at {
        Some(k) => Sched::Indexed(k),
        None => Sched::Never,
    });
    let _guard = SimGuard::new(Some(clock), seq.hasher);
    let _ = similar::verif::take_hits();
    let dl = expire_at.map(|_| instant_at(DL));
    let alg = seq.alg.to();
    let (or, nr) = (seq.or_abs(), seq.nr_abs());
    // one diff, or the three-diff sequence through the same object
    macro_rules! go {
        ($d:expr, $o:expr, $n:expr) => {{
            let first = diff_deadline(alg, $d, $o, or.clone(), $n, nr.clone(), dl);
            if !reuse || first.is_err() {
                first
            } else {
                let second = diff_deadline(alg, $d, $o, or.start..or.start, $n, nr.start..nr.start, dl);
                if second.is_err() {
                    second
                } else {
                    diff_deadline(alg, $d, $o, or.clone(), $n, nr.clone(), dl)
                }
            }
        }};
    }
    // building the lookups is part of the judged code (IdentifyDistinct)
    let r = guarded(|| with_lookups!(seq, oldc, newc, |o, n| {
        match stack {
            Stack::H => {
                let mut h = RecHook::<true>::new(fail_at);
                let r = guarded(|| go!(&mut h, o, n));
                collect(h, r)
            }
            Stack::Hdefault => {
                let mut h = RecHook::<false>::new(fail_at);
                let r = guarded(|| go!(&mut h, o, n));
                collect(h, r)
            }
            Stack::ReplaceH => {
                let mut d = Replace::new(RecHook::<true>::new(fail_at));
                let r = guarded(|| go!(&mut d, o, n));
                collect(d.into_inner(), r)
            }
            Stack::CompactH => {
                let mut d = Compact::new(RecHook::<true>::new(fail_at), o, n);
                let r = guarded(|| diff_deadline(alg, &mut d, o, or, n, nr, dl));
                collect(d.into_inner(), r)
            }
            Stack::CompactReplaceH => {
                let mut d = Compact::new(Replace::new(RecHook::<true>::new(fail_at)), o, n);
                let r = guarded(|| diff_deadline(alg, &mut d, o, or, n, nr, dl));
                collect(d.into_inner().into_inner(), r)
            }
            Stack::NoFinishH => {
                let mut d = NoFinishHook::new(RecHook::<true>::new(fail_at));
                let r = guarded(|| diff_deadline(alg, &mut d, o, or, n, nr, dl));
                collect(d.into_inner(), r)
            }
            Stack::RefMutH => {
                let mut h = RecHook::<true>::new(fail_at);
                let r = {
                    let mut rm = &mut h;
                    guarded(|| go!(&mut rm, o, n))
                };
                collect(h, r)
            }
            Stack::ReplaceRefMutH => {
                let mut h = RecHook::<true>::new(fail_at);
                let r = {
                    let mut d = Replace::new(&mut h);
                    guarded(|| go!(&mut d, o, n))
                };
                collect(h, r)
            }
            Stack::ReplaceHdefault => {
                let mut d = Replace::new(RecHook::<false>::new(fail_at));
                let r = guarded(|| go!(&mut d, o, n));
                collect(d.into_inner(), r)
            }
            Stack::ReplaceNoFinishH => {
                let mut d = Replace::new(NoFinishHook::new(RecHook::<true>::new(fail_at)));
                let r = guarded(|| diff_deadline(alg, &mut d, o, or, n, nr, dl));
                collect(d.into_inner().into_inner(), r)
            }
            Stack::CompactReplaceNoFinishH => {
                let mut d = Compact::new(
                    Replace::new(NoFinishHook::new(RecHook::<true>::new(fail_at))),
                    o,
                    n,
                );
                let r = guarded(|| diff_deadline(alg, &mut d, o, or, n, nr, dl));
                collect(d.into_inner().into_inner().into_inner(), r)
            }
            Stack::CompactReplaceHdefault => {
                let mut d = Compact::new(Replace::new(RecHook::<false>::new(fail_at)), o, n);
                let r = guarded(|| diff_deadline(alg, &mut d, o, or, n, nr, dl));
                collect(d.into_inner().into_inner(), r)
            }
        }
    }));
    match r {
        Ok(inner) => inner,
        Err(m) => Err(m),
    }
}

/// Expands every `Replace` into `Delete` + `Insert` (what a hook that does not
/// override `replace` must see).
fn expand_replace(calls: &[Call]) -> Vec<Call> {
    let mut out = Vec::new();
    for c in calls {
        match *c {
            Call::Replace(o, ol, n, nl) => {
                out.push(Call::Delete(o, ol, n));
                out.push(Call::Insert(o, n, nl));
            }
            other => out.push(other),
        }
    }
    out
}

pub struct C08;

const F_FAIL_FIRST: usize = 0;
const F_FAIL_MID: usize = 1;
const F_FAIL_FINISH: usize = 2;
const F_FAIL_IN_COMPACT_REPLAY: usize = 3;
const F_FAIL_WITH_EXPIRY: usize = 4;
const F_FAIL_DEFAULT_REPLACE_SECOND_HALF: usize = 5;

impl C08 {
    fn exec_inner(&self, case: &Case, out: &mut RunOut) -> Result<(), Fail> {
        let seq = &case.seq;
        let mut dig = Dig::new();
        let pan = |m: String| Fail {
            clause: "c08.panic",
            detail: m,
        };
        // (one clock counts probes across the whole sequence, so the reuse
        // mode is only meaningful without an expiring deadline)
        if seq.old.len() > 4000 {
            out.count("many_cells_cases", 1);
        }
        let slices = case.slices && SLICE_STACKS.contains(&case.stack);
        if slices {
            out.count("through_diff_slices_entry_points", 1);
        }
        if seq.old.len() > 60_000 {
            out.count("long_anchor_run_cases", 1);
        }
        if seq.n().min(seq.m()) <= 2 && seq.n().max(seq.m()) >= 1024 {
            out.count("one_or_two_items_against_a_thousand", 1);
        }
        let reuse = case.reuse && reusable(case.stack) && case.expire_at.is_none() && !slices;
        let run = |fail_at: Option<usize>| {
            if slices {
                run_stack_slices(seq, case.stack, fail_at, case.expire_at)
            } else {
                run_stack2(seq, case.stack, fail_at, case.expire_at, reuse)
            }
        };
        let ok = run(None).map_err(pan)?;
        out.execs += 1;
        if ok.result.is_err() {
            return fail("c08.success_ok", "diff failed although no hook call failed".into());
        }
        crate::engine::trace(|| format!("{:?} {:?} fault-free: calls reaching the hook = {:?}", case.stack, seq.alg, ok.calls));
        if reuse {
            // three diffs through one object: each must be complete on its own
            let single = run_stack(seq, case.stack, None, case.expire_at).map_err(pan)?;
            out.execs += 1;
            let mut expect = single.calls.clone();
            expect.push(Call::Finish);
            expect.extend(single.calls.iter().cloned());
            if ok.calls != expect {
                return fail(
                    "c08.reuse",
                    format!(
                        "{:?} used for three diffs in a row (real, empty, real): the hook saw {:?}, expected {:?}",
                        case.stack, ok.calls, expect
                    ),
                );
            }
            out.count("adapter_reused_for_three_diffs", 1);
        }
        let nfinish = ok.calls.iter().filter(|c| **c == Call::Finish).count();
        let no_finish = matches!(
            case.stack,
            Stack::NoFinishH | Stack::ReplaceNoFinishH | Stack::CompactReplaceNoFinishH
        );
        if no_finish {
            if nfinish != 0 {
                return fail(
                    "c08.nofinish_suppresses",
                    format!("finish reached the hook {} times through NoFinishHook", nfinish),
                );
            }
        } else if !reuse {
            if nfinish != 1 {
                return fail("c08.finish_once", format!("finish called {} times", nfinish));
            }
            if ok.calls.last() != Some(&Call::Finish) || ok.after_finish != 0 {
                return fail("c08.finish_last", "a call follows finish".into());
            }
        }
        // differential clauses against the sibling stack
        match case.stack {
            _ if reuse || slices => {}
            Stack::NoFinishH | Stack::RefMutH | Stack::Hdefault => {
                let base = run_stack(seq, Stack::H, None, case.expire_at).map_err(pan)?;
                out.execs += 1;
                let mut expect = base.calls.clone();
                if case.stack == Stack::NoFinishH {
                    expect.retain(|c| *c != Call::Finish);
                }
                if expect != ok.calls {
                    return fail(
                        "c08.wrapper_forwards",
                        format!("{:?} saw a different call stream than the bare hook", case.stack),
                    );
                }
            }
            Stack::ReplaceNoFinishH | Stack::CompactReplaceNoFinishH => {
                let sib = if case.stack == Stack::ReplaceNoFinishH {
                    Stack::ReplaceH
                } else {
                    Stack::CompactReplaceH
                };
                let base = run_stack(seq, sib, None, case.expire_at).map_err(pan)?;
                out.execs += 1;
                let mut expect = base.calls.clone();
                expect.retain(|c| *c != Call::Finish);
                if expect != ok.calls {
                    return fail(
                        "c08.wrapper_forwards",
                        format!(
                            "{:?}: NoFinishHook did not forward everything except finish: got {:?}, expected {:?}",
                            case.stack, ok.calls, expect
                        ),
                    );
                }
                if ok.calls.iter().any(|c| matches!(c, Call::Replace(..))) {
                    out.count("nofinish_forwarded_replace", 1);
                }
            }
            Stack::ReplaceRefMutH => {
                let base = run_stack(seq, Stack::ReplaceH, None, case.expire_at).map_err(pan)?;
                out.execs += 1;
                if base.calls != ok.calls {
                    return fail(
                        "c08.wrapper_forwards",
                        "&mut H behind Replace saw a different call stream than H".into(),
                    );
                }
            }
            Stack::ReplaceHdefault | Stack::CompactReplaceHdefault => {
                let sib = if case.stack == Stack::ReplaceHdefault {
                    Stack::ReplaceH
                } else {
                    Stack::CompactReplaceH
                };
                let base = run_stack(seq, sib, None, case.expire_at).map_err(pan)?;
                out.execs += 1;
                // the indices a delete/insert carries for the other side are
                // not part of this clause: compare with them masked
                let mask = |cs: &[Call]| -> Vec<Call> {
                    cs.iter()
                        .map(|c| match *c {
                            Call::Delete(o, l, _) => Call::Delete(o, l, 0),
                            Call::Insert(_, n, l) => Call::Insert(0, n, l),
                            other => other,
                        })
                        .collect()
                };
                if mask(&expand_replace(&base.calls)) != mask(&ok.calls) {
                    return fail(
                        "c08.default_replace",
                        "hook without replace override did not get delete followed by insert".into(),
                    );
                }
                if base.calls.iter().any(|c| matches!(c, Call::Replace(..))) {
                    out.count("default_replace_expanded", 1);
                }
            }
            _ => {}
        }
        let t = ok.calls.len() as u64;
        if t == 0 {
            out.digest = dig.finish();
            return Ok(());
        }
        out.gauge("max_calls_per_case", t);
        for k in fault_points(t - 1, case.cap, case.sample_seed, case.only_k) {
            let k = k as usize;
            let run = run(Some(k)).map_err(|m| Fail {
                clause: "c08.panic",
                detail: format!("k={}: {}", k, m),
            })?;
            out.execs += 1;
            crate::engine::trace(|| format!("{:?} {:?} expire_at={:?}: hook fails at call {} ({:?}) -> returned {:?}, calls delivered {}, calls after error {}", case.stack, seq.alg, case.expire_at, k, ok.calls[k], run.result, run.calls.len(), run.after_error));
            match run.result {
                Ok(()) => {
                    return fail(
                        "c08.error_returned",
                        format!("k={}: call {:?} failed but the diff returned Ok", k, ok.calls[k]),
                    )
                }
                Err(HookErr(e)) if e != k => {
                    return fail(
                        "c08.error_returned",
                        format!("k={}: diff returned the error of call {}", k, e),
                    )
                }
                Err(_) => {}
            }
            if run.after_error != 0 || run.calls.len() != k + 1 {
                return fail(
                    "c08.no_call_after_error",
                    format!(
                        "k={}: {} further calls after the failing call {:?}: {:?}",
                        k,
                        run.calls.len().saturating_sub(k + 1),
                        ok.calls[k],
                        &run.calls[(k + 1).min(run.calls.len())..]
                    ),
                );
            }
            if run.calls[..] != ok.calls[..=k] {
                return fail(
                    "c08.harness_prefix",
                    format!("k={}: failing run diverged before the failing call", k),
                );
            }
            // bookkeeping
            let kind = if ok.calls[k] == Call::Finish {
                F_FAIL_FINISH
            } else if k == 0 {
                F_FAIL_FIRST
            } else {
                F_FAIL_MID
            };
            out.faults[kind] += 1;
            if matches!(
                case.stack,
                Stack::CompactH | Stack::CompactReplaceH | Stack::CompactReplaceHdefault
            ) && ok.calls[k] != Call::Finish
            {
                out.faults[F_FAIL_IN_COMPACT_REPLAY] += 1;
            }
            if case.expire_at.is_some() {
                out.faults[F_FAIL_WITH_EXPIRY] += 1;
            }
            if matches!(case.stack, Stack::ReplaceHdefault | Stack::CompactReplaceHdefault)
                && k > 0
                && matches!(ok.calls[k], Call::Insert(..))
                && matches!(ok.calls[k - 1], Call::Delete(..))
            {
                out.faults[F_FAIL_DEFAULT_REPLACE_SECOND_HALF] += 1;
            }
            let mut d = Dig::new();
            d.add_all(&[case.stack as u64, seq.alg.code(), k as u64]);
            for c in &run.calls {
                d.add_all(&c.code());
            }
            out.nontrivial_digests.push(d.finish());
            dig.add(d.finish());
            for i in 0..run.hits.len() {
                out.hits[i] += run.hits[i];
            }
        }
        out.digest = dig.finish();
        Ok(())
    }
}

impl Prop for C08 {
    type Case = Case;

    fn id(&self) -> &'static str {
        "C08"
    }
    fn level(&self) -> &'static str {
        "fault_enumeration"
    }
    fn rule(&self) -> &'static str {
        "cases are drawn from the run seed (algorithm, sequence pair, sub-ranges, lookup kind, hasher, adapter stack out of 12, entry point diff_deadline with ranges or - a sixth of the cases - diff_slices / diff_slices_deadline on the core slices, optionally a deadline that expires at a drawn probe; at fixed places of every batch a Patience pair with more than 2^16 unique common items in one run and the deadline running out at one of the first checks); a fault-free run records the T calls that reach the user hook, then EVERY k in 0..T is executed with 'call k returns Err(E(k))' (sampled beyond the cap). evaluations = executions of real code; a distinct non-trivial execution = distinct digest of (stack, algorithm, k, calls delivered up to the failure) among executions in which the injected hook error actually fired"
    }
    fn fault_names(&self) -> Vec<&'static str> {
        vec![
            "hook_error_at_first_call",
            "hook_error_at_later_call",
            "hook_error_in_finish",
            "hook_error_inside_Compact_replay",
            "hook_error_with_deadline_expiry",
            "hook_error_in_insert_half_of_default_replace",
        ]
    }
    fn components(&self) -> Value {
        json!({
            "real": ["myers/patience/lcs diff_deadline", "algorithms::diff_slices / diff_slices_deadline", "Replace", "Compact", "NoFinishHook", "&mut D forwarding", "DiffHook::replace default"],
            "simulated": ["user hook (recording, fails at call k with a distinct error value)", "clock (indexed expiry)", "hasher", "lookups"]
        })
    }
    fn assumptions(&self) -> Vec<&'static str> {
        vec!["cases are sampled; failing call positions are enumerated completely per case up to the cap"]
    }
    fn runs(&self, tier: Tier) -> u64 {
        match tier {
            Tier::Quick => 60_000,
            Tier::Thorough => 1_500_000,
        }
    }
    fn gen(&self, rng: &mut Rng, tier: Tier, idx: u64) -> Case {
        let size = match rng.weighted(&[80, 18, 2]) {
            0 => Size::Small,
            1 => Size::Medium,
            _ => Size::Large,
        };
        let mut seq = gen_seq_case(rng, size, None);
        crate::gen::maybe_reverse_empty(rng, &mut seq);
        // very rarely: a differing middle of more than 2^24 cells (LCS)
        if rng.below(if tier == Tier::Quick { 6_000 } else { 20_000 }) == 0 {
            let composite = rng.chance(1, 2);
            let (o, n) = if composite {
                crate::gen::gen_composite(rng)
            } else {
                crate::gen::gen_many_cells(rng)
            };
            seq.old_range = (0, o.len());
            seq.new_range = (0, n.len());
            seq.old = o;
            seq.new = n;
            seq.index = crate::gen::IndexKind::Slice;
            seq.alg = if composite {
                *rng.pick(&[crate::gen::Alg::Myers, crate::gen::Alg::Patience])
            } else {
                crate::gen::Alg::Lcs
            };
        }
        let slices = rng.chance(1, 6);
        let mut stack = if slices { *rng.pick(&SLICE_STACKS) } else { *rng.pick(&STACKS) };
        // at fixed places of every batch: more than 2^16 unique common items in
        // one run (Patience), with the deadline running out at an early check
        let anchor_giant = idx % 25_000 == 4321;
        if anchor_giant {
            let (o, n) = crate::gen::gen_long_anchor_run(rng);
            seq.old_range = (0, o.len());
            seq.new_range = (0, n.len());
            seq.old = o;
            seq.new = n;
            seq.index = crate::gen::IndexKind::Slice;
            seq.alg = crate::gen::Alg::Patience;
            stack = *rng.pick(&[Stack::H, Stack::ReplaceH, Stack::NoFinishH, Stack::RefMutH]);
        }
        // at other fixed places: two matched unique items with more than 2^14
        // items between them on both sides (a gap of more than 2^28 cells)
        let gap_giant = idx % 25_000 == 8765;
        if gap_giant {
            let (o, n) = crate::gen::gen_big_gap(rng);
            seq.old_range = (0, o.len());
            seq.new_range = (0, n.len());
            seq.old = o;
            seq.new = n;
            seq.index = crate::gen::IndexKind::Slice;
            seq.alg = crate::gen::Alg::Patience;
        }
        // now and then: one or two items against a thousand or more
        if !anchor_giant && !gap_giant && rng.below(300) == 0 {
            let long = 1024 + rng.usize(2000);
            let big: Vec<u32> = (0..long as u32).map(|i| if rng.chance(1, 2) { i } else { i % 7 }).collect();
            let small: Vec<u32> = (0..1 + rng.usize(2))
                .map(|_| if rng.chance(3, 4) { big[rng.usize(long)] } else { 9_999_999 })
                .collect();
            let (o, n) = if rng.chance(1, 2) { (small, big) } else { (big, small) };
            seq.old_range = (0, o.len());
            seq.new_range = (0, n.len());
            seq.old = o;
            seq.new = n;
            seq.index = crate::gen::IndexKind::Slice;
        }
        let expire_at = if anchor_giant {
            if rng.chance(3, 4) { Some(rng.below(4)) } else { None }
        } else if seq.old.len() > 4000 {
            None
        } else if rng.chance(3, 10) {
            Some(rng.below(1 + (seq.n() + seq.m()) as u64 / 2))
        } else {
            None
        };
        Case {
            seq,
            stack,
            expire_at,
            reuse: rng.chance(1, 4),
            slices,
            only_k: None,
            cap: match (tier, size) {
                _ if anchor_giant || gap_giant => 8,
                (_, Size::Large) => 48,
                (Tier::Quick, _) => 256,
                _ => 4096,
            },
            sample_seed: rng.next(),
        }
    }
    fn exec(&self, case: &Case) -> RunOut {
        let mut out = RunOut::default();
        let _ = crate::simenv::take_route_use();
        if let Err(f) = self.exec_inner(case, &mut out) {
            out.fail = Some(f);
        }
        let ru = crate::simenv::take_route_use();
        out.count("raw_diffs_via_algorithms::diff_deadline", ru[0]);
        out.count("raw_diffs_via_algorithms::diff(no deadline)", ru[1]);
        out.count("raw_diffs_via_module_level_functions(myers::diff etc.)", ru[2]);
        out
    }
    fn focus(&self, case: &Case, fail: &Fail) -> Case {
        let mut c = case.clone();
        if let Some(rest) = fail.detail.strip_prefix("k=") {
            if let Some(k) = rest.split(':').next().and_then(|s| s.parse().ok()) {
                c.only_k = Some(k);
            }
        }
        c
    }
    fn shrink(&self, case: &Case) -> Vec<Case> {
        let mut out = Vec::new();
        if case.expire_at.is_some() {
            let mut c = case.clone();
            c.expire_at = None;
            c.only_k = None;
            out.push(c);
        }
        if case.slices {
            let mut c = case.clone();
            c.slices = false;
            out.push(c);
        }
        if case.reuse {
            let mut c = case.clone();
            c.reuse = false;
            c.only_k = None;
            out.push(c);
        }
        for s in shrink_seq(&case.seq) {
            let mut c = case.clone();
            c.seq = s;
            c.only_k = None;
            c.cap = 64;
            out.push(c);
        }
        if let Some(e) = case.expire_at {
            if e > 0 {
                let mut c = case.clone();
                c.expire_at = Some(0);
                c.only_k = None;
                out.push(c);
            }
        }
        out
    }
    fn reach(&self, agg: &Agg) -> Vec<(&'static str, u64)> {
        let c = |k: &str| agg.counters.get(k).copied().unwrap_or(0);
        vec![
            ("raw_diffs_via_algorithms::diff(no deadline)", agg.counters.get("raw_diffs_via_algorithms::diff(no deadline)").copied().unwrap_or(0)),
            ("raw_diffs_via_module_level_functions", agg.counters.get("raw_diffs_via_module_level_functions(myers::diff etc.)").copied().unwrap_or(0)),
            ("hook_error_in_finish", agg.faults[F_FAIL_FINISH]),
            ("hook_error_inside_Compact_replay", agg.faults[F_FAIL_IN_COMPACT_REPLAY]),
            ("hook_error_with_deadline_expiry", agg.faults[F_FAIL_WITH_EXPIRY]),
            ("default_replace_expanded", c("default_replace_expanded")),
            (
                "hook_error_in_insert_half_of_default_replace",
                agg.faults[F_FAIL_DEFAULT_REPLACE_SECOND_HALF],
            ),
            ("replace_flush_del_ins", agg.hits[27]),
            ("nofinish_forwarded_replace", c("nofinish_forwarded_replace")),
            ("adapter_reused_for_three_diffs", c("adapter_reused_for_three_diffs")),
            ("through_diff_slices_entry_points", c("through_diff_slices_entry_points")),
            ("long_anchor_run_cases", c("long_anchor_run_cases")),
            ("one_or_two_items_against_a_thousand", c("one_or_two_items_against_a_thousand")),
            ("cases_with_over_2^24_cells", c("many_cells_cases")),
        ]
    }
}
