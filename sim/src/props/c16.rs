//! C16 — inline changes re-split each line losslessly; only changed words
//! are emphasised.  The inner word diff runs under a deadline, so its
//! outcome depends on the clock: expiry is injected at every probe.

use std::time::Duration;

use serde::{Deserialize, Serialize};
use serde_json::{json, Value};
use similar::{ChangeTag, DiffOp, DiffTag, DiffableStr, TextDiff};

use crate::engine::{guarded, Agg, Prop, RunOut, Tier};
use crate::gen::{gen_inline_case, shrink_text, TextCase};
use crate::oracle::{fail, Fail};
use crate::prng::{Dig, Rng};
use crate::props::c07::{fault_points, DL};
use crate::simenv::{instant_at, Sched, SimClock, SimGuard, EPOCH_NS};

#[derive(Clone, Debug, Serialize, Deserialize)]
pub struct Case {
    pub text: TextCase,
    /// cost-model clock for the default entry point (500 ms budget)
    pub cost_seed: u64,
    pub cost_profile: u8,
    pub only_op: Option<usize>,
    pub only_k: Option<u64>,
    pub cap: u64,
    pub sample_seed: u64,
    /// diff the (str) texts through a user-side, case-insensitive
    /// `DiffableStr` type: lines and words may be equal without being
    /// byte-identical
    #[serde(default)]
    pub nocase: bool,
    /// `newline_terminated(..)` set explicitly on the builder (None: left at
    /// its default, which is `true` for line diffs)
    #[serde(default)]
    pub nl_flag: Option<bool>,
}

#[derive(Clone, Debug, PartialEq)]
pub struct PlainChange {
    pub tag: u8,
    pub old_index: Option<usize>,
    pub new_index: Option<usize>,
    pub value: Vec<u8>,
    pub missing_newline: bool,
}

#[derive(Clone, Debug, PartialEq)]
pub struct InlineCh {
    pub tag: u8,
    pub old_index: Option<usize>,
    pub new_index: Option<usize>,
    pub values: Vec<(bool, Vec<u8>)>,
    pub missing_newline: bool,
}

fn tagc(t: ChangeTag) -> u8 {
    match t {
        ChangeTag::Equal => b' ',
        ChangeTag::Delete => b'-',
        ChangeTag::Insert => b'+',
    }
}

#[derive(Clone, Copy, PartialEq, Debug)]
pub enum Mode {
    NoDeadline,
    Deadline,
    Default500ms,
}

pub struct InlineRun {
    pub changes: Vec<InlineCh>,
    pub probes: u64,
    pub first_expired: Option<u64>,
    pub now_plus_calls: u64,
    pub asked: Vec<u64>,
    pub given: Vec<u64>,
    pub virt_ns: u64,
    pub stalls: u64,
    pub jumps: u64,
    pub hits: [u64; similar::verif::HITS],
    pub clock_dig: u64,
}

fn inline_exec<'a, T: DiffableStr + ?Sized>(
    diff: &'a TextDiff<'a, 'a, 'a, T>,
    op: &DiffOp,
    mode: Mode,
    sched: Sched,
    hasher: (u8, u64),
) -> Result<InlineRun, String> {
    let clock = SimClock::new(sched);
    let _guard = SimGuard::new(Some(clock.clone()), hasher);
    let _ = similar::verif::take_hits();
    let changes = guarded(|| {
        let it: Vec<_> = match mode {
            Mode::NoDeadline => diff.iter_inline_changes_deadline(op, None).collect(),
            Mode::Deadline => diff
                .iter_inline_changes_deadline(op, Some(instant_at(DL)))
                .collect(),
            Mode::Default500ms => diff.iter_inline_changes(op).collect(),
        };
        it.into_iter()
            .map(|c| InlineCh {
                tag: tagc(c.tag()),
                old_index: c.old_index(),
                new_index: c.new_index(),
                values: c
                    .values()
                    .iter()
                    .map(|(e, v)| (*e, v.as_bytes().to_vec()))
                    .collect(),
                missing_newline: c.missing_newline(),
            })
            .collect::<Vec<_>>()
    })?;
    let st = clock.borrow();
    Ok(InlineRun {
        changes,
        probes: st.probes,
        first_expired: st.first_expired,
        now_plus_calls: st.now_plus_calls,
        asked: st.asked.clone(),
        given: st.given.clone(),
        virt_ns: st.now_ns - EPOCH_NS,
        stalls: st.stalls,
        jumps: st.jumps,
        hits: similar::verif::take_hits(),
        clock_dig: st.dig.finish(),
    })
}

fn judge(op: &DiffOp, plain: &[PlainChange], inl: &[InlineCh]) -> Result<(), Fail> {
    if plain.len() != inl.len() {
        return fail(
            "c16.same_changes",
            format!("plain expansion has {} changes, inline {}", plain.len(), inl.len()),
        );
    }
    let is_replace = op.tag() == DiffTag::Replace;
    for (i, (p, c)) in plain.iter().zip(inl.iter()).enumerate() {
        if p.tag != c.tag || p.old_index != c.old_index || p.new_index != c.new_index {
            return fail(
                "c16.same_tags_indices",
                format!(
                    "change {}: plain ({}, {:?}, {:?}) vs inline ({}, {:?}, {:?})",
                    i, p.tag as char, p.old_index, p.new_index, c.tag as char, c.old_index, c.new_index
                ),
            );
        }
        let cat: Vec<u8> = c.values.iter().flat_map(|(_, v)| v.iter().copied()).collect();
        if cat != p.value {
            return fail(
                "c16.segments_concatenate",
                format!(
                    "change {}: segments give {:?}, the line is {:?}",
                    i,
                    String::from_utf8_lossy(&cat),
                    String::from_utf8_lossy(&p.value)
                ),
            );
        }
        for (e, v) in &c.values {
            if *e {
                if !is_replace || c.tag == b' ' {
                    return fail(
                        "c16.emphasis_only_in_replace",
                        format!("change {}: emphasised segment outside a Replace delete/insert", i),
                    );
                }
                if v.iter().any(|b| *b == b'\n' || *b == b'\r') {
                    return fail(
                        "c16.no_linebreak_emphasised",
                        format!(
                            "change {}: emphasised segment {:?} contains a line break",
                            i,
                            String::from_utf8_lossy(v)
                        ),
                    );
                }
            }
        }
        if c.missing_newline != p.missing_newline {
            return fail(
                "c16.missing_newline",
                format!("change {}: missing_newline {} vs line {}", i, c.missing_newline, p.missing_newline),
            );
        }
    }
    Ok(())
}

pub struct C16;

const F_EXP0: usize = 0;
const F_EXPMID: usize = 1;
const F_NEVER: usize = 2;
const F_DEFAULT_EXPIRED: usize = 3;
const F_DEFAULT_NOT_EXPIRED: usize = 4;
const F_STALL: usize = 5;
const F_JUMP: usize = 6;

impl C16 {
    fn run_ops<'a, T: DiffableStr + ?Sized>(
        &self,
        case: &Case,
        diff: &'a TextDiff<'a, 'a, 'a, T>,
        out: &mut RunOut,
        dig: &mut Dig,
    ) -> Result<(), Fail> {
        let hasher = case.text.hasher;
        let ops: Vec<DiffOp> = diff.ops().to_vec();
        for (oi, op) in ops.iter().enumerate() {
            if let Some(only) = case.only_op {
                if only != oi {
                    continue;
                }
            }
            let plain: Vec<PlainChange> = diff
                .iter_changes(op)
                .map(|c| PlainChange {
                    tag: tagc(c.tag()),
                    old_index: c.old_index(),
                    new_index: c.new_index(),
                    value: c.value().as_bytes().to_vec(),
                    missing_newline: c.missing_newline(),
                })
                .collect();
            if op.tag() == DiffTag::Replace
                && (op.old_range().len() > 32 || op.new_range().len() > 32)
            {
                out.count("replace_over_32_lines", 1);
            }
            let tag_op = |f: Fail, what: String| Fail {
                clause: f.clause,
                detail: format!("op={} {}: {}", oi, what, f.detail),
            };
            let pan = |what: String| {
                move |m: String| Fail {
                    clause: "c16.panic",
                    detail: format!("op={} {}: {}", oi, what, m),
                }
            };
            if case.only_k.is_none() {
                let none = inline_exec(diff, op, Mode::NoDeadline, Sched::Never, hasher)
                    .map_err(pan("none".into()))?;
                out.execs += 1;
                if none.probes != 0 {
                    return fail(
                        "c16.none_reads_no_clock",
                        format!("op={}: {} clock reads without a deadline", oi, none.probes),
                    );
                }
                judge(op, &plain, &none.changes).map_err(|f| tag_op(f, "none".into()))?;
                for i in 0..none.hits.len() {
                    out.hits[i] += none.hits[i];
                }
                // the default entry point: hard-coded 500 ms under the cost-model clock
                let sched = Sched::Cost {
                    seed: case.cost_seed ^ oi as u64,
                    profile: case.cost_profile,
                };
                let def = inline_exec(diff, op, Mode::Default500ms, sched, hasher)
                    .map_err(pan("default".into()))?;
                out.execs += 1;
                out.virt_ns += def.virt_ns;
                out.faults[F_STALL] += def.stalls;
                out.faults[F_JUMP] += def.jumps;
                judge(op, &plain, &def.changes).map_err(|f| tag_op(f, "default".into()))?;
                if def.now_plus_calls > 1
                    || (def.probes > 0 && def.now_plus_calls != 1)
                    || def.asked.iter().any(|a| !def.given.contains(a))
                {
                    return fail(
                        "c16.default_budget_plumbing",
                        format!(
                            "op={}: budget converted {} times, clock asked {:?}, handed out {:?}",
                            oi, def.now_plus_calls, def.asked, def.given
                        ),
                    );
                }
                if def.first_expired.is_some() {
                    out.faults[F_DEFAULT_EXPIRED] += 1;
                    let mut d = Dig::new();
                    d.add_all(&[555, oi as u64, def.first_expired.unwrap()]);
                    for c in &def.changes {
                        for (e, v) in &c.values {
                            d.add(*e as u64);
                            d.add_bytes(v);
                        }
                    }
                    out.nontrivial_digests.push(d.finish());
                } else {
                    out.faults[F_DEFAULT_NOT_EXPIRED] += 1;
                    if def.changes != none.changes {
                        return fail(
                            "c16.default_unexpired_equals_none",
                            format!("op={}: 500 ms budget never expired but result differs from no deadline", oi),
                        );
                    }
                }
                dig.add(def.clock_dig);
            }
            // explicit deadline: expiry at every probe
            let dry = inline_exec(diff, op, Mode::Deadline, Sched::Never, hasher)
                .map_err(pan("never-expiring".into()))?;
            out.execs += 1;
            let kmax = dry.probes;
            out.gauge("max_probes_per_op", kmax);
            for k in fault_points(kmax, case.cap, case.sample_seed ^ oi as u64, case.only_k) {
                let run = inline_exec(diff, op, Mode::Deadline, Sched::Indexed(k), hasher)
                    .map_err(pan(format!("k={}", k)))?;
                out.execs += 1;
                crate::engine::trace(|| format!("op {} {:?} inner deadline expires at probe {} of {}: first_expired={:?} changes={:?}", oi, op, k, kmax, run.first_expired, run.changes.iter().map(|c| (c.tag as char, c.values.iter().map(|(e, v)| (*e, String::from_utf8_lossy(v).to_string())).collect::<Vec<_>>())).collect::<Vec<_>>()));
                judge(op, &plain, &run.changes).map_err(|f| tag_op(f, format!("k={}", k)))?;
                if run.asked.iter().any(|&a| a != DL) {
                    return fail(
                        "c16.deadline_forwarded",
                        format!("op={} k={}: clock asked about {:?}", oi, k, run.asked),
                    );
                }
                if k < kmax {
                    out.faults[if k == 0 { F_EXP0 } else { F_EXPMID }] += 1;
                    if run.hits[23] > 0 {
                        out.count("assembled_from_partial_inner_diff", 1);
                        let mut d = Dig::new();
                        d.add_all(&[oi as u64, k]);
                        for c in &run.changes {
                            for (e, v) in &c.values {
                                d.add(*e as u64);
                                d.add_bytes(v);
                            }
                        }
                        out.nontrivial_digests.push(d.finish());
                    }
                } else {
                    out.faults[F_NEVER] += 1;
                }
                dig.add_all(&[oi as u64, k, run.clock_dig]);
                for c in &run.changes {
                    for (e, v) in &c.values {
                        dig.add(*e as u64);
                        dig.add_bytes(v);
                    }
                }
                for i in 0..run.hits.len() {
                    out.hits[i] += run.hits[i];
                }
            }
        }
        Ok(())
    }

    fn exec_inner(&self, case: &Case, out: &mut RunOut) -> Result<(), Fail> {
        let t = &case.text;
        let mut dig = Dig::new();
        if t.bytes && (std::str::from_utf8(&t.old).is_err() || std::str::from_utf8(&t.new).is_err()) {
            out.count("byte_texts_with_ill_formed_utf8", 1);
        }
        if case.nocase && !t.bytes {
            out.count("texts_through_case_insensitive_user_type", 1);
        }
        // the outer line diff (no deadline: must not read the clock)
        let res = {
            let _guard = SimGuard::new(None, t.hasher);
            guarded(|| {
                let mut cfg = TextDiff::configure();
                cfg.algorithm(t.alg.to());
                if let Some(b) = case.nl_flag {
                    cfg.newline_terminated(b);
                }
                if t.bytes {
                    let diff = cfg.diff_lines(&t.old[..], &t.new[..]);
                    self.run_ops(case, &diff, out, &mut dig)
                } else {
                    let o = std::str::from_utf8(&t.old).expect("utf-8");
                    let n = std::str::from_utf8(&t.new).expect("utf-8");
                    if case.nocase && case.sample_seed & 1 == 1 {
                        // the other user type: lengths and slices in chars
                        use crate::custom_str::Cu;
                        let diff = cfg.diff_lines(Cu::new(o), Cu::new(n));
                        self.run_ops(case, &diff, out, &mut dig)
                    } else if case.nocase {
                        use crate::custom_str::Ci;
                        let diff = cfg.diff_lines(Ci::new(o), Ci::new(n));
                        self.run_ops(case, &diff, out, &mut dig)
                    } else if case.nl_flag.is_none() && t.alg == crate::gen::Alg::Myers && t.hasher.1 & 16 != 0 {
                        // the shortcut stands for the default configuration
                        let diff = TextDiff::from_lines(o, n);
                        self.run_ops(case, &diff, out, &mut dig)
                    } else {
                        let diff = cfg.diff_lines(o, n);
                        self.run_ops(case, &diff, out, &mut dig)
                    }
                }
            })
        };
        out.digest = dig.finish();
        match res {
            Ok(r) => r,
            Err(m) => fail("c16.panic", format!("outer diff: {}", m)),
        }
    }
}

impl Prop for C16 {
    type Case = Case;

    fn id(&self) -> &'static str {
        "C16"
    }
    fn level(&self) -> &'static str {
        "exploration"
    }
    fn rule(&self) -> &'static str {
        "cases drawn from the run seed: two line texts whose replaced blocks share words (multi-byte words, NBSP/tab/ideographic-space separators, LF/CRLF/lone-CR, missing final newline, 1..3 vs 1..3 line blocks), str (a fifth of them diffed through a user-side DiffableStr wrapper: case-insensitive, with the case of letters flipped on the new side, or one whose len()/slice() count characters instead of bytes) or [u8] (a third of the [u8] texts with ill-formed UTF-8 sequences spliced in: invalid lead bytes, truncated characters, lone continuation bytes, surrogates, overlongs), outer algorithm; for every op: iter_inline_changes_deadline with no deadline, with the deadline expiring at EVERY probe k of the inner Patience word diff (0..=K), and the default iter_inline_changes under a cost-model virtual clock against its hard-coded 500 ms budget; every result is compared with iter_changes(op). evaluations = executions; distinct non-trivial = distinct (op, k, emphasised segmentation) among executions in which the inner deadline actually expired and the per-line assembly path still ran"
    }
    fn fault_names(&self) -> Vec<&'static str> {
        vec![
            "inner_expiry_before_start(k=0)",
            "inner_expiry_at_later_probe",
            "inner_deadline_never_expires",
            "default_500ms_budget_expired",
            "default_500ms_budget_not_expired",
            "clock_stall",
            "clock_forward_jump",
        ]
    }
    fn components(&self) -> Value {
        json!({
            "real": ["TextDiff::diff_lines", "iter_inline_changes / iter_inline_changes_deadline", "MultiLookup", "push_values", "inner capture_diff_deadline(Patience)", "word tokenizer of this feature build", "iter_changes"],
            "simulated": ["clock (indexed expiry; cost model for the 500 ms budget)", "hasher"],
            "feature_build": if cfg!(feature = "unicode") { "unicode words" } else { "whitespace words" }
        })
    }
    fn assumptions(&self) -> Vec<&'static str> {
        vec!["a third of the [u8] texts carry ill-formed UTF-8 sequences; str texts cannot"]
    }
    fn runs(&self, tier: Tier) -> u64 {
        match tier {
            Tier::Quick => 40_000,
            Tier::Thorough => 600_000,
        }
    }
    fn gen(&self, rng: &mut Rng, tier: Tier, _idx: u64) -> Case {
        let max_lines = match rng.weighted(&[60, 35, 5]) {
            0 => 3,
            1 => 8,
            _ => 20,
        };
        let mut text = gen_inline_case(rng, max_lines);
        match rng.below(if tier == Tier::Quick { 16_000 } else { 60_000 }) {
            0 => {
                // one Replace op with more than 65536 words on each side
                let (o, n) = crate::gen::gen_wordy_block(rng);
                text.old = o.into_bytes();
                text.new = n.into_bytes();
            }
            161 | 162 => {
                // a line above 1 MiB with a two-byte character across 2^20
                let (o, n) = crate::gen::gen_megaline(rng);
                text.old = o.into_bytes();
                text.new = n.into_bytes();
                text.bytes = false;
            }
            1..=160 => {
                // a line with more than 32 separately changed words
                let (o, n) = crate::gen::gen_zebra_block(rng);
                text.old = o.into_bytes();
                text.new = n.into_bytes();
            }
            _ => {}
        }
        // [u8] texts: a third of them with ill-formed UTF-8 (the reason to diff
        // bytes at all) spliced in at character boundaries
        if text.bytes && text.old.len() < 60_000 && rng.chance(1, 3) {
            text.old = crate::gen::splice_ill_formed(rng, &text.old);
            text.new = crate::gen::splice_ill_formed(rng, &text.new);
        }
        // str texts: a fifth through a case-insensitive user type, with the
        // case of some letters of the new text flipped
        let nocase = !text.bytes && text.old.len() < 60_000 && rng.chance(1, 5);
        if nocase {
            for b in text.new.iter_mut() {
                if b.is_ascii_alphabetic() && rng.chance(1, 4) {
                    *b ^= 0x20;
                }
            }
        }
        let wordy = text.old.len() > 60_000;
        Case {
            text,
            cost_seed: rng.next(),
            cost_profile: rng.below(4) as u8,
            only_op: None,
            only_k: None,
            cap: if wordy {
                2
            } else if tier == Tier::Quick {
                128
            } else {
                512
            },
            sample_seed: rng.next(),
            nocase,
            nl_flag: match rng.below(6) {
                0 => Some(false),
                1 => Some(true),
                _ => None,
            },
        }
    }
    fn exec(&self, case: &Case) -> RunOut {
        let mut out = RunOut::default();
        if let Err(f) = self.exec_inner(case, &mut out) {
            out.fail = Some(f);
        }
        out
    }
    fn focus(&self, case: &Case, fail: &Fail) -> Case {
        let mut c = case.clone();
        if let Some(rest) = fail.detail.strip_prefix("op=") {
            let mut parts = rest.splitn(2, ' ');
            if let Some(oi) = parts.next().and_then(|s| s.trim_end_matches(':').parse().ok()) {
                c.only_op = Some(oi);
            }
            if let Some(tail) = parts.next() {
                if let Some(kpart) = tail.strip_prefix("k=") {
                    if let Some(k) = kpart.split(':').next().and_then(|s| s.parse().ok()) {
                        c.only_k = Some(k);
                    }
                }
            }
        }
        c
    }
    fn shrink(&self, case: &Case) -> Vec<Case> {
        let mut out = Vec::new();
        for t in shrink_text(&case.text) {
            let mut c = case.clone();
            c.text = t;
            c.only_op = None;
            c.only_k = None;
            out.push(c);
        }
        if case.cost_profile != 0 {
            let mut c = case.clone();
            c.cost_profile = 0;
            out.push(c);
        }
        if case.nocase {
            let mut c = case.clone();
            c.nocase = false;
            out.push(c);
        }
        if case.nl_flag.is_some() {
            let mut c = case.clone();
            c.nl_flag = None;
            out.push(c);
        }
        out
    }
    fn reach(&self, agg: &Agg) -> Vec<(&'static str, u64)> {
        let c = |k: &str| agg.counters.get(k).copied().unwrap_or(0);
        vec![
            ("inline_non_replace_op", agg.hits[20]),
            ("inline_upper_ratio_gate", agg.hits[21]),
            ("inline_ratio_gate_after_inner_diff", agg.hits[22]),
            ("inline_assembled", agg.hits[23]),
            ("assembled_from_partial_inner_diff", c("assembled_from_partial_inner_diff")),
            ("default_500ms_budget_expired", agg.faults[F_DEFAULT_EXPIRED]),
            ("replace_ops_with_over_32_lines", c("replace_over_32_lines")),
            ("byte_texts_with_ill_formed_utf8", c("byte_texts_with_ill_formed_utf8")),
            ("texts_through_case_insensitive_user_type", c("texts_through_case_insensitive_user_type")),
        ]
    }
}

#[allow(dead_code)]
fn _unused(_: Duration) {}
