//! C05 — rendered unified diffs are well-formed and apply exactly; the byte
//! writer delivers the same bytes through any sink behaviour.

use serde::{Deserialize, Serialize};
use serde_json::{json, Value};
use similar::{DiffableStr, TextDiff};

use crate::engine::{guarded, Agg, Prop, RunOut, Tier};
use crate::gen::{gen_text_case, shrink_text, TextCase};
use crate::oracle::{fail, Fail};
use crate::prng::{Dig, Rng};
use crate::simenv::{SimGuard, SimWriter, WriterSched};
use crate::udiff_oracle;

#[derive(Clone, Debug, Serialize, Deserialize)]
pub struct Case {
    pub text: TextCase,
    pub radius: usize,
    pub header: Option<(String, String)>,
    /// multi-step use of one formatter: provisional settings (radius, hint,
    /// header names) are set AND rendered with first, then every setter is
    /// called again; the last call counts
    #[serde(default)]
    pub header_twice: bool,
    pub hint: bool,
    pub writers: Vec<WriterSched>,
}

pub struct Rendered {
    /// reference rendering: to_writer into an all-accepting sink
    pub r: Vec<u8>,
    pub display: String,
    /// per hunk: (to_writer bytes, Display)
    pub hunks: Vec<(Vec<u8>, String)>,
    pub quick: Option<String>,
    /// Display through a width/fill/alignment spec no wider than the output
    /// differed from plain Display: (spec, got)
    pub spec_mismatch: Option<(&'static str, String)>,
}

fn render_with<'a, T: DiffableStr + ?Sized>(
    diff: &'a TextDiff<'a, 'a, 'a, T>,
    case: &Case,
) -> Result<Rendered, std::io::Error> {
    let mut ud = diff.unified_diff();
    if case.header_twice {
        // decoy settings first: every setter is called again below and the
        // last call must win
        ud.context_radius(case.radius.wrapping_add(7) % 11)
            .missing_newline_hint(!case.hint);
        // ... and the formatter is used with them before it is reconfigured:
        // a later rendering must reflect the settings in force at that time
        let _ = ud.iter_hunks().count();
        let _ = ud.to_string();
        let mut sink = Vec::new();
        ud.to_writer(&mut sink)?;
    }
    ud.context_radius(case.radius);
    if let Some((a, b)) = &case.header {
        if case.header_twice {
            ud.header("provisional-a", "provisional-b");
            let _ = ud.to_string();
        }
        ud.header(a, b);
    }
    ud.missing_newline_hint(case.hint);
    let mut r = Vec::new();
    ud.to_writer(&mut r)?;
    let display = ud.to_string();
    // a width no larger than the output (with any fill / alignment) asks for
    // no padding at all, whether the impl pads the document, its lines or
    // nothing
    let mut spec_mismatch = None;
    if display.chars().count() >= 3 {
        for (spec, got) in [
            ("{:2}", format!("{:2}", ud)),
            ("{:>3}", format!("{:>3}", ud)),
            ("{:_<2}", format!("{:_<2}", ud)),
            ("{:^3}", format!("{:^3}", ud)),
        ] {
            if got != display && spec_mismatch.is_none() {
                spec_mismatch = Some((spec, got));
            }
        }
    }
    let mut hunks = Vec::new();
    for h in ud.iter_hunks() {
        let mut hb = Vec::new();
        h.to_writer(&mut hb)?;
        let hs = h.to_string();
        let got = format!("{:_>3}", h);
        if got != hs && spec_mismatch.is_none() {
            spec_mismatch = Some(("{:_>3} (hunk)", got));
        }
        hunks.push((hb, hs));
    }
    Ok(Rendered {
        r,
        display,
        hunks,
        quick: None,
        spec_mismatch,
    })
}

pub struct WriterRun {
    pub result_ok: bool,
    pub err_kind: Option<std::io::ErrorKind>,
    pub accepted: Vec<u8>,
    pub short_writes: u64,
    pub interrupts: u64,
    pub hard_fired: bool,
    pub calls: u64,
    pub dig: u64,
}

fn write_with<'a, T: DiffableStr + ?Sized>(
    diff: &'a TextDiff<'a, 'a, 'a, T>,
    case: &Case,
    sched: &WriterSched,
    per_hunk: bool,
) -> WriterRun {
    let mut ud = diff.unified_diff();
    if case.header_twice {
        // decoy settings first: every setter is called again below and the
        // last call must win
        ud.context_radius(case.radius.wrapping_add(7) % 11)
            .missing_newline_hint(!case.hint);
        let _ = ud.iter_hunks().count();
    }
    ud.context_radius(case.radius);
    if let Some((a, b)) = &case.header {
        if case.header_twice {
            ud.header("provisional-a", "provisional-b");
        }
        ud.header(a, b);
    }
    ud.missing_newline_hint(case.hint);
    let mut w = SimWriter::new(sched.clone());
    let res = if per_hunk {
        let mut res = Ok(());
        for h in ud.iter_hunks() {
            res = h.to_writer(&mut w);
            if res.is_err() {
                break;
            }
        }
        res
    } else {
        ud.to_writer(&mut w)
    };
    WriterRun {
        result_ok: res.is_ok(),
        err_kind: res.err().map(|e| e.kind()),
        accepted: std::mem::take(&mut w.accepted),
        short_writes: w.short_writes,
        interrupts: w.interrupts,
        hard_fired: w.hard_fired,
        calls: w.calls,
        dig: w.dig.finish(),
    }
}

/// Runs `f` with the text diff of the case (str or [u8] API).
macro_rules! with_diff {
    ($case:expr, |$diff:ident| $body:expr) => {{
        let t = &$case.text;
        let mut cfg = TextDiff::configure();
        cfg.algorithm(t.alg.to());
        // (the shortcut `TextDiff::from_lines` stands for the default
        // configuration)
        let shortcut = t.alg == crate::gen::Alg::Myers && t.hasher.1 & 16 != 0;
        if t.bytes {
            let $diff = if shortcut {
                TextDiff::from_lines(&t.old[..], &t.new[..])
            } else {
                cfg.diff_lines(&t.old[..], &t.new[..])
            };
            $body
        } else {
            let o = std::str::from_utf8(&t.old).expect("str case must be UTF-8");
            let n = std::str::from_utf8(&t.new).expect("str case must be UTF-8");
            let $diff = if shortcut { TextDiff::from_lines(o, n) } else { cfg.diff_lines(o, n) };
            $body
        }
    }};
}

/// KF1 identification by input (see exec_inner): the first op of the diff is
/// a Delete/Insert whose index for the other side is not the start, or the
/// last op is one whose index for the other side is not the end.
fn kf1_can_explain(case: &Case) -> bool {
    use similar::DiffOp;
    let _guard = SimGuard::new(None, case.text.hasher);
    let r = guarded(|| {
        with_diff!(case, |diff| (
            diff.ops().to_vec(),
            diff.old_slices().len(),
            diff.new_slices().len()
        ))
    });
    let (ops, old_len, new_len) = match r {
        Ok(x) => x,
        Err(_) => return false,
    };
    let first_stale = match ops.first() {
        Some(DiffOp::Delete { new_index, .. }) => *new_index != 0,
        Some(DiffOp::Insert { old_index, .. }) => *old_index != 0,
        _ => false,
    };
    let last_stale = match ops.last() {
        Some(DiffOp::Delete { new_index, .. }) => *new_index != new_len,
        Some(DiffOp::Insert { old_index, .. }) => *old_index != old_len,
        _ => false,
    };
    first_stale || last_stale
}

pub struct C05;

const F_SHORT: usize = 0;
const F_EINTR: usize = 1;
const F_BYTEWISE: usize = 2;
const F_HARD_ZERO: usize = 3;
const F_HARD_ENOSPC: usize = 4;
const F_HARD_WOULDBLOCK: usize = 5;
const F_INVALID_UTF8: usize = 6;

const HEADER_CLAUSES: [&str; 4] = [
    "udiff.header_counts",
    "udiff.old_start",
    "udiff.new_start",
    "udiff.order",
];

impl C05 {
    /// All clauses that are a function of the rendering alone.
    fn judge_rendering(&self, case: &Case, repair: bool) -> Result<(Rendered, usize), Fail> {
        let t = &case.text;
        let _guard = SimGuard::new(None, t.hasher);
        similar::verif::set_swap_repair(repair);
        let rendered = guarded(|| with_diff!(case, |diff| render_with(&diff, case)));
        similar::verif::set_swap_repair(false);
        let mut rendered = match rendered {
            Err(m) => return fail("c05.panic", m),
            Ok(Err(e)) => return fail("c05.writer_ok", format!("all-accepting sink got {}", e)),
            Ok(Ok(r)) => r,
        };
        if !t.bytes {
            let o = std::str::from_utf8(&t.old).unwrap();
            let n = std::str::from_utf8(&t.new).unwrap();
            let hdr = case.header.as_ref().map(|(a, b)| (a.as_str(), b.as_str()));
            if case.hint {
                let _ = similar::verif::take_hits();
                similar::verif::set_swap_repair(repair);
                let q = guarded(|| similar::udiff::unified_diff(t.alg.to(), o, n, case.radius, hdr));
                similar::verif::set_swap_repair(false);
                rendered.quick = Some(q.map_err(|m| Fail {
                    clause: "c05.panic",
                    detail: m,
                })?);
            }
        }
        // Display vs writer
        let valid = std::str::from_utf8(&rendered.r).is_ok();
        if valid {
            if rendered.display.as_bytes() != &rendered.r[..] {
                return fail(
                    "c05.display_equals_writer",
                    format!(
                        "Display gives {:?}, to_writer gives {:?}",
                        rendered.display,
                        String::from_utf8_lossy(&rendered.r)
                    ),
                );
            }
        } else if rendered.display != String::from_utf8_lossy(&rendered.r) {
            return fail(
                "c05.display_is_lossy_writer",
                format!(
                    "Display gives {:?}, lossy decoding of to_writer gives {:?}",
                    rendered.display,
                    String::from_utf8_lossy(&rendered.r)
                ),
            );
        }
        if let Some((spec, got)) = &rendered.spec_mismatch {
            return fail(
                "c05.display_format_spec",
                format!(
                    "Display through {} (a width no larger than the output) gives {:?}, plain Display gives {:?}",
                    spec, got, rendered.display
                ),
            );
        }
        // raw bytes of every line must survive: the writer output must contain
        // invalid sequences when the input lines in the hunks do
        if let Some(q) = &rendered.quick {
            if q != &rendered.display {
                return fail(
                    "c05.quick_helper",
                    "udiff::unified_diff differs from the configured formatter".into(),
                );
            }
        }
        // hunks concatenate to the whole (minus the file header)
        let mut cat = Vec::new();
        let mut cat_s = String::new();
        for (hb, hs) in &rendered.hunks {
            cat.extend_from_slice(hb);
            cat_s.push_str(hs);
        }
        let hdr_len = match (&case.header, rendered.hunks.is_empty()) {
            (Some((a, b)), false) => a.len() + b.len() + 10,
            _ => 0,
        };
        if rendered.r.len() < hdr_len || rendered.r[hdr_len..] != cat[..] {
            return fail(
                "c05.hunks_concatenate",
                "per-hunk to_writer output does not concatenate to the whole diff".into(),
            );
        }
        if valid && cat_s.as_bytes() != &cat[..] {
            return fail(
                "c05.display_equals_writer",
                "per-hunk Display differs from per-hunk to_writer".into(),
            );
        }
        let mut nh = 0;
        if case.hint {
            let hdr = case.header.as_ref().map(|(a, b)| (a.as_str(), b.as_str()));
            nh = udiff_oracle::check(&rendered.r, hdr, &t.old, &t.new, case.radius)?;
        } else if t.old == t.new && !rendered.r.is_empty() {
            return fail("udiff.equal_inputs_empty", "equal inputs rendered output".into());
        }
        Ok((rendered, nh))
    }

    fn exec_inner(&self, case: &Case, out: &mut RunOut) -> Result<(), Fail> {
        let t = &case.text;
        let mut dig = Dig::new();
        out.execs += 1;
        let (rendered, nh) = match self.judge_rendering(case, false) {
            Ok(r) => r,
            Err(f) => {
                if HEADER_CLAUSES.contains(&f.clause) {
                    // attribution: does the failure disappear if, and only if,
                    // the Compact swap site repairs its carried indices?  And
                    // is this an input on which KF1 can reach a hunk header at
                    // all: the header is taken from the first and the last op
                    // of a group, and every group boundary inside the diff is
                    // an Equal op (exact by construction), so only a stale
                    // Delete/Insert as the very first or very last op of the
                    // whole diff can be KF1.
                    out.execs += 1;
                    if self.judge_rendering(case, true).is_ok() && kf1_can_explain(case) {
                        out.known = Some("KF1".into());
                    }
                }
                return Err(f);
            }
        };
        crate::engine::trace(|| format!("rendered ({} hunks): {:?}", nh, String::from_utf8_lossy(&rendered.r)));
        out.absorb_hits();
        if std::str::from_utf8(&rendered.r).is_err() {
            out.faults[F_INVALID_UTF8] += 1;
        }
        out.gauge("max_hunks", nh as u64);
        dig.add_bytes(&rendered.r);
        // the writer clause: simulated sinks
        for sched in &case.writers {
            for per_hunk in [false, true] {
                let _guard = SimGuard::new(None, t.hasher);
                let run = guarded(|| with_diff!(case, |diff| write_with(&diff, case, sched, per_hunk)))
                    .map_err(|m| Fail {
                        clause: "c05.panic",
                        detail: format!("writer {:?}: {}", sched, m),
                    })?;
                out.execs += 1;
                dig.add(run.dig);
                out.faults[F_SHORT] += run.short_writes;
                out.faults[F_EINTR] += run.interrupts;
                if sched.kind == 1 {
                    out.faults[F_BYTEWISE] += 1;
                }
                let expect: &[u8] = if per_hunk {
                    let hdr_len = match (&case.header, rendered.hunks.is_empty()) {
                        (Some((a, b)), false) => a.len() + b.len() + 10,
                        _ => 0,
                    };
                    &rendered.r[hdr_len..]
                } else {
                    &rendered.r[..]
                };
                crate::engine::trace(|| format!("sink {:?} per_hunk={}: write calls={} short_writes={} EINTR={} hard_fired={} ok={} accepted {} of {} bytes", sched, per_hunk, run.calls, run.short_writes, run.interrupts, run.hard_fired, run.result_ok, run.accepted.len(), expect.len()));
                if sched.hard != 0 {
                    // hard faults: C05 says nothing about *which* error comes
                    // back, so that is not judged; but success must mean that
                    // every byte reached the sink, and whatever reached it must
                    // be a prefix of the rendering
                    if run.hard_fired {
                        out.faults[match sched.hard {
                            1 => F_HARD_ZERO,
                            2 => F_HARD_ENOSPC,
                            _ => F_HARD_WOULDBLOCK,
                        }] += 1;
                        if !expect.starts_with(&run.accepted) {
                            return fail(
                                "c05.writer_bytes",
                                format!(
                                    "sink schedule {:?}: bytes accepted before the hard fault are not a prefix of the rendering",
                                    sched
                                ),
                            );
                        }
                        if run.result_ok && run.accepted != expect {
                            return fail(
                                "c05.writer_ok_means_all_bytes",
                                format!(
                                    "sink schedule {:?}{}: a write failed ({} of {} bytes reached the sink) but to_writer returned Ok",
                                    sched,
                                    if per_hunk { " (per hunk)" } else { "" },
                                    run.accepted.len(),
                                    expect.len()
                                ),
                            );
                        }
                        continue;
                    }
                }
                if !run.result_ok {
                    return fail(
                        "c05.writer_ok",
                        format!(
                            "to_writer{} returned {:?} under sink schedule {:?}",
                            if per_hunk { " (per hunk)" } else { "" },
                            run.err_kind,
                            sched
                        ),
                    );
                }
                if run.accepted != expect {
                    return fail(
                        "c05.writer_bytes",
                        format!(
                            "sink schedule {:?}{}: accepted {:?}, expected {:?}",
                            sched,
                            if per_hunk { " (per hunk)" } else { "" },
                            String::from_utf8_lossy(&run.accepted),
                            String::from_utf8_lossy(expect)
                        ),
                    );
                }
                if run.short_writes + run.interrupts > 0 {
                    let mut d = Dig::new();
                    d.add(run.dig);
                    d.add_bytes(&run.accepted);
                    out.nontrivial_digests.push(d.finish());
                }
            }
        }
        out.digest = dig.finish();
        Ok(())
    }
}

impl Prop for C05 {
    type Case = Case;

    fn id(&self) -> &'static str {
        "C05"
    }
    fn level(&self) -> &'static str {
        "exploration"
    }
    fn rule(&self) -> &'static str {
        "cases drawn from the run seed: two line texts (few distinct lines, repeats, LF/CRLF/lone-CR terminators, missing final newline, empty, header-like and marker-like contents, invalid UTF-8 in byte mode), algorithm, radius 0..=5 and rarely huge radii up to usize::MAX, header on/off, str or [u8]; the diff is rendered into an all-accepting sink (reference R) and through Display, per hunk and whole; R is parsed and strictly applied by an independent applier; then UnifiedDiff::to_writer and UnifiedDiffHunk::to_writer are executed against simulated sinks (byte-at-a-time, random short writes, EINTR bursts, mixed; hard faults Ok(0)/ENOSPC/WouldBlock: the error value is not judged, but Ok must mean every byte arrived and accepted bytes must be a prefix of R) and otherwise the accepted bytes must equal R with Ok returned. evaluations = renderings + sink executions; distinct non-trivial = distinct (sink event log, accepted bytes) among sink executions in which at least one short write or EINTR actually fired"
    }
    fn fault_names(&self) -> Vec<&'static str> {
        vec![
            "short_write",
            "EINTR",
            "byte_at_a_time_sink",
            "hard_Ok(0)",
            "hard_ENOSPC",
            "hard_WouldBlock",
            "input_with_invalid_utf8",
        ]
    }
    fn components(&self) -> Value {
        json!({
            "real": ["TextDiff::diff_lines (str and [u8])", "group_diff_ops", "UnifiedDiff / UnifiedDiffHunk to_writer and Display", "UnifiedHunkHeader", "udiff::unified_diff", "std write_all / write_fmt retry loops"],
            "simulated": ["io::Write sink (short writes, EINTR, hard faults)", "hasher"],
            "oracle": ["own unified-diff parser and strict applier", "own line splitter"]
        })
    }
    fn assumptions(&self) -> Vec<&'static str> {
        vec![
            "under hard sink faults only two things are judged: Ok means all bytes arrived, and accepted bytes are a prefix of the rendering (C05 does not speak about which error is returned)",
            "the parse/apply clauses are a pure function of the input and are only sampled; the sink schedule is the simulated dimension",
            "failures of header start/length clauses that disappear exactly when the Compact swap arms repair their carried indices are the listed known finding KF1",
        ]
    }
    fn runs(&self, tier: Tier) -> u64 {
        match tier {
            Tier::Quick => 400_000,
            Tier::Thorough => 30_000_000,
        }
    }
    fn gen(&self, rng: &mut Rng, tier: Tier, _idx: u64) -> Case {
        let max_lines = match rng.weighted(&[70, 25, 5]) {
            0 => 8,
            1 => 24,
            _ => {
                if tier == Tier::Thorough {
                    260
                } else {
                    130
                }
            }
        };
        let mut text = gen_text_case(rng, max_lines, true);
        // very rarely: more than 65536 distinct lines overall (fewer per side)
        if rng.below(if tier == Tier::Quick { 50_000 } else { 600_000 }) == 0 {
            let (o, n) = if rng.chance(1, 3) {
                crate::gen::gen_many_distinct(rng)
            } else {
                crate::gen::gen_composite(rng)
            };
            let render = |xs: &[u32]| -> Vec<u8> {
                let mut t = Vec::new();
                for x in xs {
                    t.extend_from_slice(format!("l{}\n", x).as_bytes());
                }
                t
            };
            text.old = render(&o);
            text.new = render(&n);
            text.alg = *rng.pick(&[crate::gen::Alg::Myers, crate::gen::Alg::Patience]);
            text.hasher.0 = 0;
        }
        let header = if rng.chance(1, 2) {
            Some((
                rng.pick(&["a.txt", "old", "a b\t2020-01-01", ""]).to_string(),
                rng.pick(&["b.txt", "new", "+++", "x"]).to_string(),
            ))
        } else {
            None
        };
        let nw = 1 + rng.usize(3);
        let writers = (0..nw)
            .map(|_| {
                let hard = if rng.chance(1, 8) { 1 + rng.below(3) as u8 } else { 0 };
                WriterSched {
                    kind: rng.weighted(&[1, 2, 4, 3, 4]) as u8,
                    seed: rng.next(),
                    hard,
                    hard_at: rng.below(60),
                    vectored: rng.chance(1, 3),
                }
            })
            .collect();
        Case {
            text,
            // mostly small radii; rarely "all the context there is"
            radius: if rng.chance(1, 40) {
                *rng.pick(&[usize::MAX, usize::MAX / 2 + 1, usize::MAX / 2, 1usize << 40, 1000])
            } else {
                *rng.pick(&[0usize, 0, 1, 1, 2, 3, 3, 5])
            },
            header,
            header_twice: rng.chance(1, 5),
            hint: !rng.chance(1, 10),
            writers,
        }
    }
    fn exec(&self, case: &Case) -> RunOut {
        let mut out = RunOut::default();
        if let Err(f) = self.exec_inner(case, &mut out) {
            out.fail = Some(f);
        }
        out
    }
    fn shrink(&self, case: &Case) -> Vec<Case> {
        let mut out = Vec::new();
        if case.writers.len() > 1 {
            for i in 0..case.writers.len() {
                let mut c = case.clone();
                c.writers = vec![case.writers[i].clone()];
                out.push(c);
            }
        }
        if case.header.is_some() {
            let mut c = case.clone();
            c.header = None;
            out.push(c);
        }
        if case.header_twice {
            let mut c = case.clone();
            c.header_twice = false;
            out.push(c);
        }
        if !case.hint {
            let mut c = case.clone();
            c.hint = true;
            out.push(c);
        }
        for t in shrink_text(&case.text) {
            let mut c = case.clone();
            c.text = t;
            out.push(c);
        }
        if case.radius > 0 {
            let mut c = case.clone();
            c.radius = if case.radius > 1000 { case.radius / 2 + 1 } else { case.radius - 1 };
            if c.radius != case.radius {
                out.push(c);
            }
        }
        for (i, w) in case.writers.iter().enumerate() {
            if w.kind != 1 && w.kind != 0 {
                let mut c = case.clone();
                c.writers[i].kind = 1;
                out.push(c);
            }
            if w.hard != 0 {
                let mut c = case.clone();
                c.writers[i].hard = 0;
                out.push(c);
            }
        }
        out
    }
    fn reach(&self, agg: &Agg) -> Vec<(&'static str, u64)> {
        vec![
            ("short_write", agg.faults[F_SHORT]),
            ("EINTR", agg.faults[F_EINTR]),
            ("input_with_invalid_utf8_in_output", agg.faults[F_INVALID_UTF8]),
            ("compact_swap", agg.hits[10] + agg.hits[17]),
            ("hard_faults_fired", agg.faults[F_HARD_ZERO] + agg.faults[F_HARD_ENOSPC] + agg.faults[F_HARD_WOULDBLOCK]),
        ]
    }
}
