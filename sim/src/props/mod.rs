pub mod c07;
