pub mod c07;
pub mod c08;
pub mod c10;
pub mod capfam;
