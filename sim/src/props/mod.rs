pub mod c05;
pub mod c07;
pub mod c08;
pub mod c10;
pub mod c16;
pub mod c20;
pub mod capfam;
