//! C20 — diffs are deterministic (across repeated calls, callers and hasher
//! seeds) and depend only on the equality pattern of the items.

use std::collections::BTreeMap;

use serde::{Deserialize, Serialize};
use serde_json::{json, Value};
use similar::algorithms::IdentifyDistinct;
use similar::{capture_diff, capture_diff_slices, TextDiff};

use crate::engine::{guarded, Agg, Prop, RunOut, Tier};
use crate::gen::{gen_seq_case, shrink_seq, IndexKind, SeqCase, Size};
use crate::oracle::{fail, ops_of, Fail, Op};
use crate::prng::{Dig, Rng};
use crate::simenv::{draw_hasher, SimGuard};

#[derive(Clone, Copy, Debug, Serialize, Deserialize, PartialEq, Eq)]
pub enum Entry {
    /// capture_diff_slices over relabelled u64 / String items
    Slices,
    /// capture_diff over IdentifyDistinct lookups (ids compared too)
    Distinct,
    TextLines,
    TextWords,
    TextChars,
    /// `TextDiffConfig::diff_slices` over tokens of user-side `DiffableStr`
    /// types (tagged, case-insensitive, trailing blanks ignored, plain str):
    /// the representations are the relabellings
    TextTokens,
}

#[derive(Clone, Debug, Serialize, Deserialize)]
pub struct Exec {
    pub hasher: (u8, u64),
    /// 0 identity, 1 u64 relabelling, 2 fixed-width String relabelling, 3 items with colliding Hash,
    /// 4 different item types on the two sides, 5 old and new are views of ONE
    /// shared buffer whose items start at the same addresses (Slices: unsized
    /// `str` items that are prefixes of one buffer; text entries: one text and
    /// a prefix of the very same allocation)
    pub relabel: u8,
    pub relabel_seed: u64,
    /// run this many times within the same caller (map counter advances)
    pub repeats: u8,
}

#[derive(Clone, Debug, Serialize, Deserialize)]
pub struct Case {
    pub seq: SeqCase,
    pub entry: Entry,
    pub execs: Vec<Exec>,
    pub real_randomstate_smoke: bool,
    /// text entries: these two texts instead of the ones built from `seq`
    #[serde(default)]
    pub raw: Option<(String, String)>,
}

/// Strictly increasing injective map of the symbols into u64.
fn relabel_map(seq: &SeqCase, seed: u64) -> BTreeMap<u32, u64> {
    let mut syms: Vec<u32> = seq.old.iter().chain(seq.new.iter()).copied().collect();
    syms.sort();
    syms.dedup();
    let mut rng = Rng::new(seed);
    let mut cur = rng.below(1 << 20);
    let mut map = BTreeMap::new();
    for s in syms {
        cur += 1 + rng.below(1 << 24);
        map.insert(s, cur);
    }
    map
}

const WORDS: [&str; 10] = ["a", "bb", "ccc", "x1", "foo", "bar", "q", "zz", "h\u{e9}", "\u{65e5}\u{672c}"];
const CHARS: [char; 14] = ['a', 'b', 'c', ' ', 'd', '\n', '\u{e9}', 'e', '\u{65e5}', 'f', '\u{a0}', '\r', '\u{2003}', '\u{1f642}'];

fn tok(entry: Entry, x: u32) -> String {
    match entry {
        Entry::TextChars => CHARS[(x as usize) % CHARS.len()].to_string(),
        _ => {
            if (x as usize) < WORDS.len() {
                WORDS[x as usize].to_string()
            } else {
                format!("w{}", x)
            }
        }
    }
}

/// Separators between words: ASCII and non-ASCII whitespace, so that the str
/// and [u8] tokenizers must agree on what whitespace is.
const SEPS: [&str; 18] = [
    " ", "\n", " ", "\t", "\u{a0}", " ", "\u{2003}", "\u{85}", "\u{b}", "\u{3000}", "\r\n", "  ",
    // not White_Space, but easily mistaken for it: zero width space / joiner /
    // no-break space (BOM), soft hyphen, word joiner
    "\u{200b}", "\u{feff}", "\u{ad}", "\u{2060}", "\u{200d}", "\u{1680}",
];
/// Line contents may contain Unicode line separators that are not line breaks
/// for this crate.
const LINE_EXTRA: [&str; 6] = ["", "", " x", "\u{2028}y", "\u{85}", "\u{b}z"];

fn build_text(entry: Entry, xs: &[u32]) -> String {
    let mut s = String::new();
    // some texts start with a byte order mark
    if xs.first().map_or(false, |x| x % 4 == 1) {
        s.push('\u{feff}');
    }
    for (i, &x) in xs.iter().enumerate() {
        match entry {
            Entry::TextLines => {
                s.push_str(&tok(entry, x));
                s.push_str(LINE_EXTRA[(x as usize) % LINE_EXTRA.len()]);
                if (x as usize + i) % 4 == 0 {
                    s.push_str(crate::gen::ODD_STRS[(x as usize * 5 + i) % crate::gen::ODD_STRS.len()]);
                }
                s.push_str(match x % 5 {
                    0 => "\r\n",
                    1 => "\r",
                    _ => "\n",
                });
            }
            Entry::TextWords => {
                if i > 0 {
                    // mostly the short list above, otherwise any odd code point
                    if (x as usize + i) % 3 == 0 {
                        s.push_str(crate::gen::ODD_STRS[(x as usize * 7 + i) % crate::gen::ODD_STRS.len()]);
                    } else {
                        s.push_str(SEPS[(x as usize) % SEPS.len()]);
                    }
                }
                s.push_str(&tok(entry, x));
            }
            _ => {
                s.push_str(&tok(entry, x));
                if (x as usize + i) % 5 == 0 {
                    s.push_str(crate::gen::ODD_STRS[(x as usize * 3 + i) % crate::gen::ODD_STRS.len()]);
                }
            }
        }
    }
    s
}

/// The new side's item type when the two sides have different types: equal to
/// a `u64` of the old side when the values agree, but hashed differently (the
/// algorithms' bounds ask for `Hash + Eq` per side and `PartialEq` across
/// sides; nothing ties the two hash functions together).
#[derive(Clone, Copy, Debug, PartialEq, Eq, PartialOrd, Ord)]
pub struct Other(pub u64);

impl std::hash::Hash for Other {
    fn hash<H: std::hash::Hasher>(&self, state: &mut H) {
        state.write_u64(!self.0);
        state.write_u8(7);
    }
}

impl PartialEq<u64> for Other {
    fn eq(&self, other: &u64) -> bool {
        self.0 == *other
    }
}

/// An item whose `Hash` legitimately collides for unequal items (hashes only
/// `v % modulus`); equality and order are those of `v`.
#[derive(Clone, Copy, Debug, PartialEq, Eq, PartialOrd, Ord)]
pub struct Coll {
    pub v: u64,
    pub modulus: u64,
}

impl std::hash::Hash for Coll {
    fn hash<H: std::hash::Hasher>(&self, state: &mut H) {
        state.write_u64(self.v % self.modulus);
    }
}

/// Lookup whose items are unsized `str` prefixes ("snapshots") of one shared
/// buffer: item i is `buf[..lens[i]]`, so every item of both sides starts at
/// the same address and items differ only in their length.
pub struct Snap<'a> {
    pub buf: &'a str,
    pub lens: Vec<usize>,
}

impl<'a> std::ops::Index<usize> for Snap<'a> {
    type Output = str;
    fn index(&self, i: usize) -> &str {
        &self.buf[..self.lens[i]]
    }
}

/// Largest char boundary of `s` that is <= i.
fn floor_boundary(s: &str, mut i: usize) -> usize {
    i = i.min(s.len());
    while !s.is_char_boundary(i) {
        i -= 1;
    }
    i
}

#[derive(Debug, PartialEq, Clone)]
pub struct Outcome {
    pub ops: Vec<Op>,
    /// IdentifyDistinct ids (old then new), when the entry point has them
    pub ids: Vec<u32>,
    /// ops of the same text diffed as [u8] (text entries)
    pub bytes_ops: Option<Vec<Op>>,
    /// shared-buffer mode: how the diff of two views of one allocation
    /// differed from the diff of separately allocated copies
    pub shared_mismatch: Option<String>,
}

/// One execution under the currently installed hasher configuration.
fn run_once(seq: &SeqCase, entry: Entry, ex: &Exec, raw: Option<&(String, String)>) -> Result<Outcome, String> {
    let alg = seq.alg.to();
    guarded(|| match entry {
        Entry::Slices | Entry::Distinct => {
            // relabel
            macro_rules! go {
                ($old:expr, $new:expr) => {{
                    let (o, n) = ($old, $new);
                    if entry == Entry::Slices {
                        Outcome {
                            ops: ops_of(&capture_diff_slices(alg, &o[seq.or()], &n[seq.nr()]))
                                .into_iter()
                                .collect(),
                            ids: Vec::new(),
                            bytes_ops: None,
                            shared_mismatch: None,
                        }
                    } else {
                        let ih = IdentifyDistinct::<u32>::new(&o[..], seq.or(), &n[..], seq.nr());
                        let ops = capture_diff(
                            alg,
                            ih.old_lookup(),
                            ih.old_range(),
                            ih.new_lookup(),
                            ih.new_range(),
                        );
                        let mut ids: Vec<u32> = seq.or().map(|i| ih.old_lookup()[i]).collect();
                        ids.extend(seq.nr().map(|i| ih.new_lookup()[i]));
                        Outcome {
                            ops: ops_of(&ops),
                            ids,
                            bytes_ops: None,
                            shared_mismatch: None,
                        }
                    }
                }};
            }
            match ex.relabel {
                0 => go!(seq.old.clone(), seq.new.clone()),
                1 => {
                    let m = relabel_map(seq, ex.relabel_seed);
                    let o: Vec<u64> = seq.old.iter().map(|x| m[x]).collect();
                    let n: Vec<u64> = seq.new.iter().map(|x| m[x]).collect();
                    go!(o, n)
                }
                4 => {
                    // different item types on the two sides (plain slices as
                    // lookups; the integer mapping is not part of this mode)
                    let m = relabel_map(seq, ex.relabel_seed);
                    let o: Vec<u64> = seq.old.iter().map(|x| m[x]).collect();
                    let n: Vec<Other> = seq.new.iter().map(|x| Other(m[x])).collect();
                    let ops = capture_diff(alg, &o[..], seq.or(), &n[..], seq.nr());
                    // reported relative to the range starts, like the Slices entry
                    let (so, sn) = (seq.old_range.0, seq.new_range.0);
                    Outcome {
                        ops: crate::oracle::unshift_ops(ops_of(&ops), so, sn).unwrap_or_default(),
                        ids: Vec::new(),
                        bytes_ops: None,
                        shared_mismatch: None,
                    }
                }
                5 => {
                    // prefixes of one shared buffer as unsized `str` items:
                    // shorter prefix < longer prefix, so the relabelling keeps
                    // order and equalities
                    let mut syms: Vec<u32> = seq.old.iter().chain(seq.new.iter()).copied().collect();
                    syms.sort();
                    syms.dedup();
                    let unit = ["a", "\u{e9}", "ab"][(ex.relabel_seed % 3) as usize];
                    let buf = unit.repeat(syms.len() + 1);
                    let len_of = |x: &u32| (syms.binary_search(x).unwrap() + 1) * unit.len();
                    let o = Snap { buf: &buf, lens: seq.old.iter().map(len_of).collect() };
                    let n = Snap { buf: &buf, lens: seq.new.iter().map(len_of).collect() };
                    let ops = capture_diff(alg, &o, seq.or(), &n, seq.nr());
                    let (so, sn) = (seq.old_range.0, seq.new_range.0);
                    Outcome {
                        ops: crate::oracle::unshift_ops(ops_of(&ops), so, sn).unwrap_or_default(),
                        ids: Vec::new(),
                        bytes_ops: None,
                        shared_mismatch: None,
                    }
                }
                2 => {
                    let m = relabel_map(seq, ex.relabel_seed);
                    let o: Vec<String> = seq.old.iter().map(|x| format!("{:020}", m[x])).collect();
                    let n: Vec<String> = seq.new.iter().map(|x| format!("{:020}", m[x])).collect();
                    go!(o, n)
                }
                _ => {
                    // same equalities and order, colliding hashes
                    let m = relabel_map(seq, ex.relabel_seed);
                    let modulus = 1 + ex.relabel_seed % 4;
                    let c = |x: &u32| Coll { v: m[x], modulus };
                    let o: Vec<Coll> = seq.old.iter().map(c).collect();
                    let n: Vec<Coll> = seq.new.iter().map(c).collect();
                    go!(o, n)
                }
            }
        }
        Entry::TextTokens => {
            use crate::custom_str::{nocase, tagged, trimmed};
            let mut cfg = TextDiff::configure();
            cfg.algorithm(alg);
            let (oc, nc) = (seq.old_core(), seq.new_core());
            let shift = (ex.relabel_seed % 3) as usize;
            macro_rules! run {
                ($mk:expr) => {{
                    let mk = $mk;
                    let o: Vec<_> = oc.iter().enumerate().map(|(i, x)| mk(*x, i)).collect();
                    let n: Vec<_> = nc.iter().enumerate().map(|(i, x)| mk(*x, i + shift)).collect();
                    let (o, n): (Vec<_>, Vec<_>) = (o.iter().collect(), n.iter().collect());
                    ops_of(cfg.diff_slices(&o, &n).ops())
                }};
            }
            let ops = match ex.relabel {
                0 => run!(|x: u32, _i: usize| tagged(x)),
                1 => run!(nocase),
                2 => run!(trimmed),
                _ => {
                    let m = relabel_map(seq, ex.relabel_seed);
                    let o: Vec<String> = oc.iter().map(|x| format!("{:020}", m[x])).collect();
                    let n: Vec<String> = nc.iter().map(|x| format!("{:020}", m[x])).collect();
                    let (o, n): (Vec<&str>, Vec<&str>) =
                        (o.iter().map(|s| s.as_str()).collect(), n.iter().map(|s| s.as_str()).collect());
                    ops_of(cfg.diff_slices(&o, &n).ops())
                }
            };
            Outcome {
                ops,
                ids: Vec::new(),
                bytes_ops: None,
                shared_mismatch: None,
            }
        }
        _ => {
            // the texts sit at drawn offsets inside their allocations (the
            // reference execution: at the start)
            let (pad_o, pad_n) = (((ex.relabel_seed >> 20) % 16) as usize, ((ex.relabel_seed >> 24) % 16) as usize);
            let (told, tnew) = match raw {
                Some((o, n)) => (o.clone(), n.clone()),
                None => (build_text(entry, seq.old_core()), build_text(entry, seq.new_core())),
            };
            let obuf = format!("{}{}", "#".repeat(pad_o), told);
            let nbuf = format!("{}{}", "#".repeat(pad_n), tnew);
            let ot = obuf[pad_o..].to_string();
            let nt = nbuf[pad_n..].to_string();
            let (ov, nv): (&str, &str) = (&obuf[pad_o..], &nbuf[pad_n..]);
            let mut cfg = TextDiff::configure();
            cfg.algorithm(alg);
            let (s_ops, b_ops) = match entry {
                Entry::TextLines => (
                    ops_of(cfg.diff_lines(ov, nv).ops()),
                    ops_of(cfg.diff_lines(ov.as_bytes(), nv.as_bytes()).ops()),
                ),
                Entry::TextWords => (
                    ops_of(cfg.diff_words(ov, nv).ops()),
                    ops_of(cfg.diff_words(ov.as_bytes(), nv.as_bytes()).ops()),
                ),
                _ => (
                    ops_of(cfg.diff_chars(ov, nv).ops()),
                    ops_of(cfg.diff_chars(ov.as_bytes(), nv.as_bytes()).ops()),
                ),
            };
            let mut shared_mismatch = None;
            if ex.relabel == 5 {
                // one allocation, two views with the same start: the full text
                // and a prefix of it (either one as the old side)
                let buf = if ex.relabel_seed & 1 == 0 { &nt } else { &ot };
                let cut = match (ex.relabel_seed >> 1) % 4 {
                    0 => buf.trim_end().len(),
                    1 => floor_boundary(buf, buf.len().saturating_sub(1)),
                    2 => floor_boundary(buf, buf.len().saturating_sub(1 + ((ex.relabel_seed >> 8) % 7) as usize)),
                    _ => floor_boundary(buf, ((ex.relabel_seed >> 8) as usize) % (buf.len() + 1)),
                };
                let (full, part): (&str, &str) = (buf.as_str(), &buf[..cut]);
                let full_copy = String::from(full);
                let part_copy = String::from(part);
                let swap = (ex.relabel_seed >> 3) & 1 == 1;
                macro_rules! pair {
                    ($f:ident) => {{
                        let (a, b, ac, bc) = if swap {
                            (full, part, full_copy.as_str(), part_copy.as_str())
                        } else {
                            (part, full, part_copy.as_str(), full_copy.as_str())
                        };
                        let shared = ops_of(cfg.$f(a, b).ops());
                        let shared_b = ops_of(cfg.$f(a.as_bytes(), b.as_bytes()).ops());
                        let copies = ops_of(cfg.$f(ac, bc).ops());
                        if shared != copies {
                            shared_mismatch = Some(format!(
                                "views {:?} / {:?} of one buffer give {:?}, separately allocated copies give {:?}",
                                a, b, shared, copies
                            ));
                        } else if shared_b != copies {
                            shared_mismatch = Some(format!(
                                "[u8] views {:?} / {:?} of one buffer give {:?}, separately allocated copies give {:?}",
                                a, b, shared_b, copies
                            ));
                        }
                    }};
                }
                match entry {
                    Entry::TextLines => pair!(diff_lines),
                    Entry::TextWords => pair!(diff_words),
                    _ => pair!(diff_chars),
                }
            }
            Outcome {
                ops: s_ops,
                ids: Vec::new(),
                bytes_ops: Some(b_ops),
                shared_mismatch,
            }
        }
    })
}

/// Subrange shift: Slices entry diffs the extracted slices, so its ops are
/// relative to the range starts; nothing to adjust when comparing runs of the
/// same case with each other.
/// More than 16 000 bytes of LF-terminated lines with one to three lone CR /
/// CRLF terminators somewhere in the middle third, and an edited copy.
fn gen_sparse_cr_text(rng: &mut Rng) -> (String, String) {
    let n = 2800 + rng.usize(1500);
    let special: Vec<usize> = (0..1 + rng.usize(3)).map(|_| n / 3 + rng.usize(n / 3)).collect();
    let mut lines: Vec<String> = (0..n)
        .map(|i| {
            let term = if special.contains(&i) {
                if rng.chance(2, 3) { "\r" } else { "\r\n" }
            } else {
                "\n"
            };
            format!("l{} {}{}", i % 97, i, term)
        })
        .collect();
    let old = lines.concat();
    for _ in 0..1 + rng.usize(4) {
        let at = rng.usize(lines.len());
        match rng.below(3) {
            0 => {
                lines.remove(at);
            }
            1 => lines.insert(at, "new line\n".to_string()),
            _ => lines[at] = format!("changed {}\n", at),
        }
    }
    (old, lines.concat())
}

/// Lines whose content length is L - d for every multiple L of 4096 up to
/// 16 * 4096 (and a few powers of two) and d in 0..=3, with CRLF / CR / LF.
fn gen_block_boundary_lines(rng: &mut Rng) -> (String, String) {
    let mut lines: Vec<String> = Vec::new();
    let mut push = |rng: &mut Rng, len: usize, term: &str| {
        let mut s = String::with_capacity(len + 2);
        let c = (b'a' + rng.below(26) as u8) as char;
        for _ in 0..len {
            s.push(c);
        }
        s.push_str(term);
        lines.push(s);
    };
    // systematically: for every multiple of 4096 up to 2^16 a line whose CR
    // (of a CRLF) is the last byte of such a block, and one drawn neighbour
    for k in 1..=16usize {
        push(rng, 4096 * k - 1, "\r\n");
        let d = rng.usize(4);
        let term = *rng.pick(&["\r\n", "\r", "\n"]);
        push(rng, 4096 * k - d, term);
    }
    // and a few powers of two
    for _ in 0..3 {
        let l = 1usize << (6 + rng.usize(11));
        let d = rng.usize(4);
        let term = *rng.pick(&["\r\n", "\r", "\n"]);
        push(rng, l - d, term);
    }
    let old = lines.concat();
    let at = rng.usize(lines.len());
    match rng.below(3) {
        0 => lines.insert(at, "inserted\r\n".to_string()),
        1 => {
            lines.remove(at);
        }
        _ => lines[at].insert(0, 'X'),
    }
    (old, lines.concat())
}

pub struct C20;

const F_KEYED: usize = 0;
const F_DEGENERATE: usize = 1;
const F_LOWENT: usize = 2;
const F_REVERSED: usize = 3;
const F_ROTATED: usize = 4;
const F_RELABEL_U64: usize = 5;
const F_RELABEL_STRING: usize = 6;
const F_REPEAT_SAME_CALLER: usize = 7;
const F_ORDER_CHANGED: usize = 8;
const F_REAL_RANDOMSTATE: usize = 9;
const F_RELABEL_COLLIDING: usize = 10;
const F_HETEROGENEOUS: usize = 11;
const F_SHARED_BUFFER: usize = 12;

impl C20 {
    fn exec_inner(&self, case: &Case, out: &mut RunOut) -> Result<(), Fail> {
        let seq = &case.seq;
        let mut dig = Dig::new();
        let reference_exec = Exec {
            hasher: (0, 0),
            relabel: 0,
            relabel_seed: 0,
            repeats: 1,
        };
        let (reference, ref_order) = {
            let _g = SimGuard::new(None, (0, 0));
            let _ = similar::verif::take_order();
            let r = run_once(seq, case.entry, &reference_exec, case.raw.as_ref()).map_err(|m| Fail {
                clause: "c20.panic",
                detail: format!("reference: {}", m),
            })?;
            (r, similar::verif::take_order())
        };
        out.execs += 1;
        out.absorb_hits();
        if let Some(b) = &reference.bytes_ops {
            if *b != reference.ops {
                return fail(
                    "c20.str_equals_bytes",
                    format!("exec=ref: str ops {:?} differ from [u8] ops {:?}", reference.ops, b),
                );
            }
        }
        for op in &reference.ops {
            dig.add_all(&op.code());
        }
        let mut any_order_change = false;
        for (ei, ex) in case.execs.iter().enumerate() {
            let _g = SimGuard::new(None, ex.hasher);
            for rep in 0..ex.repeats.max(1) {
                let _ = similar::verif::take_order();
                let r = run_once(seq, case.entry, ex, case.raw.as_ref()).map_err(|m| Fail {
                    clause: "c20.panic",
                    detail: format!("exec={} rep={}: {}", ei, rep, m),
                })?;
                let order = similar::verif::take_order();
                out.execs += 1;
                out.faults[match ex.hasher.0 {
                    1 => F_DEGENERATE,
                    2 => F_LOWENT,
                    3 => F_REVERSED,
                    4 => F_ROTATED,
                    _ => F_KEYED,
                }] += 1;
                match ex.relabel {
                    _ if case.entry == Entry::TextTokens => out.count("executions_over_user_token_types", 1),
                    1 => out.faults[F_RELABEL_U64] += 1,
                    2 => out.faults[F_RELABEL_STRING] += 1,
                    3 => out.faults[F_RELABEL_COLLIDING] += 1,
                    4 => out.faults[F_HETEROGENEOUS] += 1,
                    5 => out.faults[F_SHARED_BUFFER] += 1,
                    _ => {}
                }
                if rep > 0 {
                    out.faults[F_REPEAT_SAME_CALLER] += 1;
                }
                if order != ref_order {
                    out.faults[F_ORDER_CHANGED] += 1;
                    any_order_change = true;
                }
                crate::engine::trace(|| format!("exec {} rep {}: hasher {:?} relabel {} -> map iteration order digest {:016x} (reference {:016x}), ops equal = {}", ei, rep, ex.hasher, ex.relabel, order, ref_order, r.ops == reference.ops));
                if r.ops != reference.ops {
                    return fail(
                        "c20.same_ops",
                        format!(
                            "exec={} rep={} (hasher {:?}, relabel {}): ops {:?} differ from the reference {:?}",
                            ei, rep, ex.hasher, ex.relabel, r.ops, reference.ops
                        ),
                    );
                }
                if let Some(m) = &r.shared_mismatch {
                    return fail(
                        "c20.same_ops_shared_buffer",
                        format!("exec={} rep={} (hasher {:?}): {}", ei, rep, ex.hasher, m),
                    );
                }
                if r.ids != reference.ids {
                    return fail(
                        "c20.same_ids",
                        format!("exec={} rep={}: integer mapping differs from the reference", ei, rep),
                    );
                }
                if let Some(b) = &r.bytes_ops {
                    if *b != r.ops {
                        return fail(
                            "c20.str_equals_bytes",
                            format!("exec={} rep={}: str ops differ from [u8] ops", ei, rep),
                        );
                    }
                }
                dig.add_all(&[ei as u64, rep as u64, order]);
            }
        }
        if seq.old.len() > 2000 || seq.new.len() > 2000 {
            out.count("huge_unique_cases", 1);
        }
        if any_order_change {
            let mut d = Dig::new();
            d.add(case.entry as u64);
            d.add(seq.alg.code());
            for x in seq.old_core().iter().chain(seq.new_core()) {
                d.add(*x as u64);
            }
            out.nontrivial_digests.push(d.finish());
        }
        // unjudged smoke observation: std's RandomState on a fresh OS thread
        if case.real_randomstate_smoke {
            let seq2 = seq.clone();
            let entry = case.entry;
            let raw2 = case.raw.clone();
            let got = std::thread::spawn(move || {
                similar::verif::set_hasher(None);
                run_once(&seq2, entry, &Exec {
                    hasher: (0, 0),
                    relabel: 0,
                    relabel_seed: 0,
                    repeats: 1,
                }, raw2.as_ref())
            })
            .join();
            out.faults[F_REAL_RANDOMSTATE] += 1;
            match got {
                Ok(Ok(r)) if r.ops == reference.ops && r.ids == reference.ids => {}
                _ => out.count("real_randomstate_disagreements(unjudged)", 1),
            }
        }
        out.digest = dig.finish();
        Ok(())
    }
}

impl Prop for C20 {
    type Case = Case;

    fn id(&self) -> &'static str {
        "C20"
    }
    fn level(&self) -> &'static str {
        "exploration"
    }
    fn rule(&self) -> &'static str {
        "cases drawn from the run seed (algorithm, sequence pair favouring many items unique on both sides in permuted order and >100 tokens, sub-ranges, entry point: capture_diff_slices / capture_diff over IdentifyDistinct lookups / TextDiff lines, words, chars); one reference execution (identity labels, SipHash key 0) and R further executions, each with a drawn hasher kind and key per logical caller (keyed, reversed, rotated, low-entropy, degenerate), a drawn order-preserving injective relabelling (u64, fixed-width Strings, items with colliding hashes, different item types on the two sides, unsized str items that are prefixes of ONE shared buffer so that all items start at the same address), for text entries the texts sit at drawn offsets 0..15 inside their allocations, the token entry runs TextDiffConfig::diff_slices over user-side DiffableStr token types (tagged, case-insensitive, trailing blanks ignored, plain str) as representations of the same equality pattern, and the text is also diffed against a prefix view of the very same allocation compared with separately allocated copies, and repetitions inside one caller (per-map key advances as in RandomState). All executions must return the reference ops (and integer ids); text diffs of str and of the same bytes as [u8] must agree. evaluations = executions; distinct non-trivial = distinct cases in which the iteration order of at least one hash map (observed in unique() before its sort) actually differed from the reference execution"
    }
    fn fault_names(&self) -> Vec<&'static str> {
        vec![
            "hasher_keyed",
            "hasher_degenerate(all collide)",
            "hasher_low_entropy",
            "hasher_reversed",
            "hasher_rotated",
            "relabel_u64",
            "relabel_string",
            "repeat_in_same_caller(map counter advanced)",
            "map_iteration_order_differed_from_reference",
            "real_RandomState_on_fresh_thread(unjudged)",
            "relabel_colliding_hash(unequal items, equal hashes)",
            "different_item_types_on_the_two_sides(unrelated hashes)",
            "old_and_new_are_views_of_one_shared_buffer(items start at the same addresses)",
        ]
    }
    fn components(&self) -> Value {
        json!({
            "real": ["capture_diff_slices / capture_diff", "patience unique()", "IdentifyDistinct", "TextDiff (str and [u8], both sides of the 100 token switch)", "hashbrown"],
            "simulated": ["BuildHasher of every map the crate creates (seeded kinds/keys; stub for RandomState/SipHash-1-3)", "logical callers (per-caller base key, per-map counter)"],
            "unjudged": ["std RandomState on fresh OS threads (smoke observation, counted, never a verdict)"]
        })
    }
    fn assumptions(&self) -> Vec<&'static str> {
        vec![
            "threads matter to this crate only through the RandomState keys they hand to new maps (no shared state, no statics): callers are modelled as hasher configurations",
            "the seeded hasher is a stub for std's RandomState",
        ]
    }
    fn runs(&self, tier: Tier) -> u64 {
        match tier {
            Tier::Quick => 30_000,
            Tier::Thorough => 400_000,
        }
    }
    fn gen(&self, rng: &mut Rng, tier: Tier, idx: u64) -> Case {
        let size = match rng.weighted(&[50, 35, 15]) {
            0 => Size::Small,
            1 => Size::Medium,
            _ => Size::Large,
        };
        let mut seq = gen_seq_case(rng, size, None);
        // Patience is where hash order could leak; favour it
        if rng.chance(1, 2) {
            seq.alg = crate::gen::Alg::Patience;
        }
        seq.index = IndexKind::Slice;
        // rarely: more than a thousand unique items on each side (Patience)
        let huge = rng.chance(if tier == Tier::Quick { 1 } else { 2 }, 100);
        if huge {
            let blocks = 1100 + rng.usize(900);
            let (o, n) = if rng.chance(9, 10) {
                crate::gen::gen_unique_heavy(rng, blocks)
            } else {
                crate::gen::gen_composite(rng)
            };
            seq.old_range = (0, o.len());
            seq.new_range = (0, n.len());
            seq.old = o;
            seq.new = n;
            seq.alg = crate::gen::Alg::Patience;
        }
        let entry = *rng.pick(&[
            Entry::Slices,
            Entry::Slices,
            Entry::Distinct,
            Entry::Distinct,
            Entry::TextLines,
            Entry::TextWords,
            Entry::TextChars,
            Entry::TextTokens,
        ]);
        let r = if tier == Tier::Quick { 8 } else { 64 };
        let r = if size == Size::Large { r.min(16) } else { r };
        let r = if huge { 3 } else { r };
        let entry = if huge && !matches!(entry, Entry::Slices | Entry::Distinct) {
            Entry::Slices
        } else {
            entry
        };
        let allow_deg = seq.old.len() + seq.new.len() <= 200;
        let execs = (0..r)
            .map(|_| Exec {
                hasher: draw_hasher(rng, allow_deg),
                relabel: match entry {
                    Entry::Slices => {
                        let k = rng.below(6) as u8;
                        if k == 5 && seq.old.len() + seq.new.len() > 6000 {
                            1
                        } else {
                            k
                        }
                    }
                    Entry::Distinct => rng.below(4) as u8,
                    Entry::TextTokens => rng.below(4) as u8,
                    _ => {
                        if rng.chance(1, 4) {
                            5
                        } else {
                            0
                        }
                    }
                },
                relabel_seed: rng.next(),
                repeats: if rng.chance(1, 4) { 2 } else { 1 },
            })
            .collect();
        // at fixed places of every batch: hand-shaped texts for the twin
        // tokenizers (a long text with a lone CR far from both ends; lines
        // whose length sits at a multiple of 4096 or a power of two, minus
        // 0..3, with every kind of terminator)
        let mut raw = None;
        let mut entry = entry;
        let mut execs: Vec<Exec> = execs;
        if idx % 2500 == 77 && !huge {
            let (o, n) = if rng.chance(1, 2) { gen_sparse_cr_text(rng) } else { gen_block_boundary_lines(rng) };
            raw = Some((o, n));
            entry = if rng.chance(3, 4) { Entry::TextLines } else { Entry::TextWords };
            execs.truncate(4);
            for e in execs.iter_mut() {
                e.relabel = if rng.chance(1, 4) { 5 } else { 0 };
            }
        }
        Case {
            seq,
            entry,
            execs,
            real_randomstate_smoke: rng.chance(1, 16),
            raw,
        }
    }
    fn exec(&self, case: &Case) -> RunOut {
        let mut out = RunOut::default();
        if let Err(f) = self.exec_inner(case, &mut out) {
            out.fail = Some(f);
        }
        out
    }
    fn focus(&self, case: &Case, fail: &Fail) -> Case {
        let mut c = case.clone();
        c.real_randomstate_smoke = false;
        if let Some(rest) = fail.detail.strip_prefix("exec=") {
            if let Some(ei) = rest.split(' ').next().and_then(|s| s.parse::<usize>().ok()) {
                if ei < case.execs.len() {
                    c.execs = vec![case.execs[ei].clone()];
                }
            } else {
                c.execs.clear();
            }
        }
        c
    }
    fn shrink(&self, case: &Case) -> Vec<Case> {
        let mut out = Vec::new();
        for s in shrink_seq(&case.seq) {
            let mut c = case.clone();
            c.seq = s;
            out.push(c);
        }
        for (i, ex) in case.execs.iter().enumerate() {
            if ex.relabel != 0 {
                let mut c = case.clone();
                c.execs[i].relabel = 0;
                out.push(c);
            }
            if ex.repeats > 1 {
                let mut c = case.clone();
                c.execs[i].repeats = 1;
                out.push(c);
            }
        }
        out
    }
    fn reach(&self, agg: &Agg) -> Vec<(&'static str, u64)> {
        vec![
            ("map_iteration_order_differed_from_reference", agg.faults[F_ORDER_CHANGED]),
            ("text_over_100_tokens", agg.hits[24]),
            ("patience_gap_diffs", agg.hits[4]),
            ("cases_with_over_1000_unique_items", agg.counters.get("huge_unique_cases").copied().unwrap_or(0)),
            ("real_randomstate_smoke_runs", agg.faults[F_REAL_RANDOMSTATE]),
            ("executions_over_user_token_types", agg.counters.get("executions_over_user_token_types").copied().unwrap_or(0)),
            ("executions_over_views_of_one_buffer", agg.faults[F_SHARED_BUFFER]),
        ]
    }
}
