//! C10 — Compact and Replace preserve meaning and cost of any valid script.
//! A simulated producer feeds arbitrary valid call histories into the
//! streaming adapters; a simulated (fallible) consumer sits downstream.

use serde::{Deserialize, Serialize};
use serde_json::{json, Value};
use similar::algorithms::{Compact, DiffHook, Replace};

use crate::engine::{guarded, Agg, Prop, RunOut, Tier};
use crate::gen::{gen_script, gen_seq_case, shrink_seq, IndexKind, SeqCase, Size};
use crate::oracle::{calls_to_ops, count_del_ins, fail, normal_form, walk_ops, Fail, Op};
use crate::prng::{Dig, Rng};
use crate::props::c07::fault_points;
use crate::simenv::{Call, HookErr, RecHook, SimGuard};

#[derive(Clone, Copy, Debug, Serialize, Deserialize, PartialEq, Eq)]
pub enum Stack {
    Compact,
    Replace,
    CompactReplace,
    ReplaceCompact,
    /// the consumer is handed over as `&mut hook`
    ReplaceRef,
    CompactReplaceRef,
    CompactRef,
}

#[derive(Clone, Debug, Serialize, Deserialize)]
pub struct Case {
    pub seq: SeqCase,
    pub script_seed: u64,
    /// explicit script (set by the shrinker); None = derive from script_seed
    pub script: Option<Vec<Call>>,
    pub stack: Stack,
    /// feed the history twice through the same adapter object (Replace only:
    /// Compact keeps its buffer and is single-use by construction)
    #[serde(default)]
    pub reuse: bool,
    pub only_k: Option<u64>,
    pub cap: u64,
    pub sample_seed: u64,
}

pub struct Fed {
    pub calls: Vec<Call>,
    pub result: Result<(), HookErr>,
    pub after_error: usize,
    pub after_finish: usize,
    pub fed: usize,
    pub hits: [u64; similar::verif::HITS],
}

fn feed<D: DiffHook<Error = HookErr>>(d: &mut D, script: &[Call]) -> (Result<(), HookErr>, usize) {
    let mut fed = 0;
    for c in script {
        let r = match *c {
            Call::Equal(a, b, l) => d.equal(a, b, l),
            Call::Delete(a, l, b) => d.delete(a, l, b),
            Call::Insert(a, b, l) => d.insert(a, b, l),
            Call::Replace(a, al, b, bl) => d.replace(a, al, b, bl),
            Call::Finish => continue,
        };
        fed += 1;
        if let Err(e) = r {
            // a correct producer stops at the first error
            return (Err(e), fed);
        }
    }
    (d.finish(), fed)
}

pub fn run_fed(
    seq: &SeqCase,
    script: &[Call],
    stack: Stack,
    fail_at: Option<usize>,
) -> Result<Fed, String> {
    run_fed2(seq, script, stack, fail_at, false)
}

fn feed_n<D: DiffHook<Error = HookErr>>(d: &mut D, script: &[Call], twice: bool) -> (Result<(), HookErr>, usize) {
    let (r, fed) = feed(d, script);
    if !twice || r.is_err() {
        return (r, fed);
    }
    let (r2, fed2) = feed(d, script);
    (r2, fed + fed2)
}

fn shift_call(c: Call, so: usize, sn: usize) -> Call {
    match c {
        Call::Equal(o, n, l) => Call::Equal(o + so, n + sn, l),
        Call::Delete(o, l, n) => Call::Delete(o + so, l, n + sn),
        Call::Insert(o, n, l) => Call::Insert(o + so, n + sn, l),
        Call::Replace(o, ol, n, nl) => Call::Replace(o + so, ol, n + sn, nl),
        Call::Finish => Call::Finish,
    }
}

pub fn run_fed2(
    seq: &SeqCase,
    script: &[Call],
    stack: Stack,
    fail_at: Option<usize>,
    twice: bool,
) -> Result<Fed, String> {
    if seq.index == IndexKind::Far {
        // the same history over lookups whose index space starts at a huge
        // base: calls are shifted on the way in and back on the way out
        let (so, sn) = seq.far_bases();
        let shifted: Vec<Call> = script.iter().map(|c| shift_call(*c, so, sn)).collect();
        let fo = crate::simenv::Far { data: &seq.old[..], base: so };
        let fnew = crate::simenv::Far { data: &seq.new[..], base: sn };
        let mut fed = run_stack(seq, &fo, &fnew, &shifted, stack, fail_at, twice)?;
        let mut back = Vec::with_capacity(fed.calls.len());
        for c in fed.calls.drain(..) {
            match c.unshift(so, sn) {
                Some(c) => back.push(c),
                None => return Err(format!("adapter delivered {:?}: index below the base of the lookups ({}, {})", c, so, sn)),
            }
        }
        fed.calls = back;
        Ok(fed)
    } else {
        run_stack(seq, &seq.old[..], &seq.new[..], script, stack, fail_at, twice)
    }
}

fn run_stack<O, N>(
    seq: &SeqCase,
    old: &O,
    new: &N,
    script: &[Call],
    stack: Stack,
    fail_at: Option<usize>,
    twice: bool,
) -> Result<Fed, String>
where
    O: std::ops::Index<usize, Output = u32> + ?Sized,
    N: std::ops::Index<usize, Output = u32> + ?Sized,
{
    let _guard = SimGuard::new(None, seq.hasher);
    let _ = similar::verif::take_hits();
    let mut h = RecHook::<true>::new(fail_at);
    let (h, r) = match stack {
        Stack::ReplaceRef => {
            let r = {
                let mut d = Replace::new(&mut h);
                guarded(|| feed_n(&mut d, script, twice))
            };
            (h, r)
        }
        Stack::CompactReplaceRef => {
            let r = {
                let mut d = Compact::new(Replace::new(&mut h), old, new);
                guarded(|| feed_n(&mut d, script, twice))
            };
            (h, r)
        }
        Stack::CompactRef => {
            let r = {
                let mut d = Compact::new(&mut h, old, new);
                guarded(|| feed_n(&mut d, script, twice))
            };
            (h, r)
        }
        Stack::Compact => {
            let mut d = Compact::new(h, old, new);
            let r = guarded(|| feed_n(&mut d, script, twice));
            (d.into_inner(), r)
        }
        Stack::Replace => {
            let mut d = Replace::new(h);
            let r = guarded(|| feed_n(&mut d, script, twice));
            (d.into_inner(), r)
        }
        Stack::CompactReplace => {
            let mut d = Compact::new(Replace::new(h), old, new);
            let r = guarded(|| feed_n(&mut d, script, twice));
            (d.into_inner().into_inner(), r)
        }
        Stack::ReplaceCompact => {
            let mut d = Replace::new(Compact::new(h, old, new));
            let r = guarded(|| feed_n(&mut d, script, twice));
            (d.into_inner().into_inner(), r)
        }
    };
    let (result, fed) = r?;
    Ok(Fed {
        calls: h.calls,
        result,
        after_error: h.calls_after_error,
        after_finish: h.calls_after_finish,
        fed,
        hits: similar::verif::take_hits(),
    })
}

fn carried_exact(ops: &[Op], seq: &SeqCase) -> Result<(), Fail> {
    let (mut oi, mut ni) = (seq.old_range.0, seq.new_range.0);
    for (idx, op) in ops.iter().enumerate() {
        match *op {
            Op::Delete(_, _, n) if n != ni => {
                return fail(
                    "c10.replace_carried_exact",
                    format!("op {} {:?}: new position is {}", idx, op, ni),
                )
            }
            Op::Insert(o, _, _) if o != oi => {
                return fail(
                    "c10.replace_carried_exact",
                    format!("op {} {:?}: old position is {}", idx, op, oi),
                )
            }
            _ => {}
        }
        let (_, ol, _, nl) = op.spans();
        oi += ol;
        ni += nl;
    }
    Ok(())
}

pub struct C10;

const F_SCRIPT_INS_BEFORE_DEL: usize = 0;
const F_SCRIPT_INTERLEAVED: usize = 1;
const F_SCRIPT_SPLIT_EQUAL: usize = 2;
const F_CONSUMER_ERR: usize = 3;
const F_CONSUMER_ERR_FINISH: usize = 4;
const F_CONSUMER_ERR_WHILE_FEEDING: usize = 5;

impl C10 {
    fn exec_inner(&self, case: &Case, out: &mut RunOut) -> Result<(), Fail> {
        let seq = &case.seq;
        let script = match &case.script {
            Some(s) => s.clone(),
            None => gen_script(&mut Rng::new(case.script_seed), seq),
        };
        let mut dig = Dig::new();
        if script.len() > 65536 {
            out.count("history_over_65536_calls", 1);
        }
        if seq.index == IndexKind::Far {
            out.count("far_index_space", 1);
        }
        let in_ops = calls_to_ops(&script);
        // the producer itself must be a valid script (harness self-check)
        if let Err(f) = walk_ops(&in_ops, &seq.old, &seq.new, seq.or(), seq.nr()) {
            return fail("c10.harness_script_invalid", f.detail);
        }
        let (in_del, in_ins) = count_del_ins(&in_ops);
        // shape statistics of the history
        for w in script.windows(2) {
            match (w[0], w[1]) {
                (Call::Insert(..), Call::Delete(..)) => out.faults[F_SCRIPT_INS_BEFORE_DEL] += 1,
                (Call::Equal(..), Call::Equal(..)) => out.faults[F_SCRIPT_SPLIT_EQUAL] += 1,
                _ => {}
            }
        }
        for w in script.windows(3) {
            if let (Call::Delete(..), Call::Insert(..), Call::Delete(..))
            | (Call::Insert(..), Call::Delete(..), Call::Insert(..)) = (w[0], w[1], w[2])
            {
                out.faults[F_SCRIPT_INTERLEAVED] += 1;
            }
        }
        let reuse = case.reuse && matches!(case.stack, Stack::Replace | Stack::ReplaceRef);
        if reuse {
            let once = run_fed(seq, &script, case.stack, None).map_err(|m| Fail {
                clause: "c10.panic",
                detail: m,
            })?;
            let twice = run_fed2(seq, &script, case.stack, None, true).map_err(|m| Fail {
                clause: "c10.panic",
                detail: m,
            })?;
            out.execs += 2;
            let mut expect = once.calls.clone();
            expect.extend(once.calls.iter().cloned());
            if twice.result.is_err() || twice.calls != expect {
                return fail(
                    "c10.reuse",
                    format!(
                        "{:?} fed the same history twice: consumer saw {:?}, expected twice {:?}",
                        case.stack, twice.calls, once.calls
                    ),
                );
            }
            out.count("adapter_fed_twice", 1);
        }
        let ok = run_fed(seq, &script, case.stack, None).map_err(|m| Fail {
            clause: "c10.panic",
            detail: m,
        })?;
        out.execs += 1;
        crate::engine::trace(|| format!("{:?}: history fed = {:?}; consumer received = {:?}", case.stack, script, ok.calls));
        if ok.result.is_err() {
            return fail("c10.ok", "adapter failed although the consumer never failed".into());
        }
        // delivered by the time finish returns, finish once and last
        let nfinish = ok.calls.iter().filter(|c| **c == Call::Finish).count();
        if nfinish != 1 || ok.calls.last() != Some(&Call::Finish) || ok.after_finish != 0 {
            return fail(
                "c10.finish",
                format!("finish reached the consumer {} times / not last", nfinish),
            );
        }
        let ops = calls_to_ops(&ok.calls);
        walk_ops(&ops, &seq.old, &seq.new, seq.or(), seq.nr())?;
        let (d, i) = count_del_ins(&ops);
        if (d, i) != (in_del, in_ins) {
            return fail(
                "c10.conserved",
                format!(
                    "script deletes {} / inserts {} items, adapter output deletes {} / inserts {}",
                    in_del, in_ins, d, i
                ),
            );
        }
        match case.stack {
            Stack::CompactReplace | Stack::CompactReplaceRef => normal_form(&ops, &seq.new)?,
            Stack::Replace | Stack::ReplaceRef => carried_exact(&ops, seq)?,
            _ => {}
        }
        let rewrote = ok.hits[6..20].iter().any(|&h| h > 0) || ok.hits[27] > 0;
        let mut d0 = Dig::new();
        d0.add_all(&[case.stack as u64, 777]);
        for c in &ok.calls {
            d0.add_all(&c.code());
        }
        if rewrote {
            out.nontrivial_digests.push(d0.finish());
        }
        dig.add(d0.finish());
        for i in 0..ok.hits.len() {
            out.hits[i] += ok.hits[i];
        }
        // consumer fails at call k
        let t = ok.calls.len() as u64;
        for k in fault_points(t - 1, case.cap, case.sample_seed, case.only_k) {
            let k = k as usize;
            let run = run_fed(seq, &script, case.stack, Some(k)).map_err(|m| Fail {
                clause: "c10.panic",
                detail: format!("k={}: {}", k, m),
            })?;
            out.execs += 1;
            crate::engine::trace(|| format!("{:?}: consumer fails at call {} ({:?}) -> {:?}; producer had fed {} of {} calls", case.stack, k, ok.calls[k], run.result, run.fed, script.len()));
            match run.result {
                Ok(()) => {
                    return fail(
                        "c10.error_returned",
                        format!("k={}: consumer call {:?} failed but Ok came back", k, ok.calls[k]),
                    )
                }
                Err(HookErr(e)) if e != k => {
                    return fail(
                        "c10.error_returned",
                        format!("k={}: the error of call {} came back", k, e),
                    )
                }
                Err(_) => {}
            }
            if run.after_error != 0 || run.calls.len() != k + 1 {
                return fail(
                    "c10.no_call_after_error",
                    format!("k={}: consumer was called again after it failed", k),
                );
            }
            out.faults[F_CONSUMER_ERR] += 1;
            if ok.calls[k] == Call::Finish {
                out.faults[F_CONSUMER_ERR_FINISH] += 1;
            }
            if run.fed < script.len() {
                out.faults[F_CONSUMER_ERR_WHILE_FEEDING] += 1;
            }
            let mut d = Dig::new();
            d.add_all(&[case.stack as u64, k as u64]);
            for c in &run.calls {
                d.add_all(&c.code());
            }
            out.nontrivial_digests.push(d.finish());
            dig.add(d.finish());
        }
        out.digest = dig.finish();
        Ok(())
    }
}

impl Prop for C10 {
    type Case = Case;

    fn id(&self) -> &'static str {
        "C10"
    }
    fn level(&self) -> &'static str {
        "exploration"
    }
    fn rule(&self) -> &'static str {
        "cases drawn from the run seed: short sequence pair over few symbols with repeats (optionally a sub-range), a random monotone alignment (edit-graph walk), its delete and insert streams merged in a PRNG-scheduled order and coalesced into calls of drawn lengths (incl. insert-before-delete, d-i-d-i, split equals), fed through Compact / Replace / Compact<Replace> / Replace<Compact> (consumer owned or handed over as &mut) into a recording consumer that additionally fails at EVERY call index k. Oracle: output is a valid script for the same ranges, deleted and inserted item counts conserved, everything delivered and finished exactly once when finish returns, normal form through Compact<Replace>, exact carried indices through Replace alone; failing consumer => that error comes back and nothing follows. distinct non-trivial = distinct (stack, delivered calls) among executions in which an adapter actually rewrote the script or the consumer error fired"
    }
    fn fault_names(&self) -> Vec<&'static str> {
        vec![
            "history_insert_before_delete",
            "history_d_i_d_or_i_d_i_interleaving",
            "history_split_equal_run",
            "consumer_error_at_call_k",
            "consumer_error_in_finish",
            "consumer_error_while_producer_still_feeding",
        ]
    }
    fn components(&self) -> Value {
        json!({
            "real": ["Compact (cleanup_diff_ops, shift up/down, swap, merge)", "Replace (pending-run state machine)", "DiffOp shift/grow/shrink helpers"],
            "simulated": ["producer (generated valid call histories)", "consumer (recording hook, fails at call k)"]
        })
    }
    fn assumptions(&self) -> Vec<&'static str> {
        vec![
            "single sequential caller: the schedule space is the order of calls in the history, not thread interleavings",
            "normal form is demanded only for the pipeline order Compact<Replace<_>> (the order capture_diff uses)",
        ]
    }
    fn runs(&self, tier: Tier) -> u64 {
        match tier {
            Tier::Quick => 1_000_000,
            Tier::Thorough => 500_000_000,
        }
    }
    fn gen(&self, rng: &mut Rng, tier: Tier, idx: u64) -> Case {
        let size = match rng.weighted(&[85, 15]) {
            0 => Size::Small,
            _ => Size::Medium,
        };
        let mut seq = gen_seq_case(rng, size, None);
        // a quarter of the histories run over lookups whose index space starts
        // at a huge base (above 2^32, in the upper half of usize, next to
        // usize::MAX)
        seq.index = if rng.chance(1, 4) { IndexKind::Far } else { IndexKind::Slice };
        // very rarely: an insertion that can slide by more than 4096 items
        // (old = B, new = B B, history: equal(B) insert(B))
        let mut script = None;
        if rng.below(if tier == Tier::Quick { 120_000 } else { 400_000 }) == 0 {
            let (o, n) = crate::gen::gen_big_slide(rng);
            let len = o.len();
            seq.old_range = (0, len);
            seq.new_range = (0, 2 * len);
            seq.old = o;
            seq.new = n;
            script = Some(if rng.chance(1, 2) {
                vec![Call::Equal(0, 0, len), Call::Insert(len, len, len)]
            } else {
                // the copy inserted in front, in two pieces
                vec![
                    Call::Insert(0, 0, len / 2),
                    Call::Insert(0, len / 2, len - len / 2),
                    Call::Equal(0, len, len),
                ]
            });
        }
        // very rarely: a one-item insertion in front of a run of thousands of
        // identical items (thousands of single slide steps), or an equal call
        // of more than 2^20 items right behind an insertion
        let mut cap = if tier == Tier::Quick { 64 } else { 1024 };
        let pick = if idx % 250_000 == 77 {
            // at fixed places of every batch: a history of more than 2^16 calls
            cap = 6;
            5
        } else {
            rng.below(if tier == Tier::Quick { 40_000 } else { 150_000 }).min(4 + 2)
        };
        match if pick == 5 && idx % 250_000 != 77 { 6 } else { pick } {
            0..=3 => {
                let run = 1100 + rng.usize(5000);
                seq.old = vec![7; run];
                seq.new = vec![7; run + 1];
                seq.old_range = (0, run);
                seq.new_range = (0, run + 1);
                script = Some(vec![Call::Insert(0, 0, 1), Call::Equal(0, 1, run)]);
            }
            4 => {
                let n = (1 << 20) + 5 + rng.usize(50);
                let old: Vec<u32> = (0..n).map(|i| (i % 251) as u32).collect();
                let mut new = vec![old[0]];
                new.extend_from_slice(&old);
                seq.old = old;
                seq.new = new;
                seq.old_range = (0, n);
                seq.new_range = (0, n + 1);
                script = Some(vec![Call::Insert(0, 0, 1), Call::Equal(0, 1, n)]);
            }
            5 => {
                // a history of more than 2^16 calls (single-item and short
                // calls, neighbours of one kind that an adapter merges)
                let target = (1 << 16) + 100 + rng.usize(6000);
                let alphabet = 2 + rng.below(5) as u32;
                let (mut old, mut new, mut sc) = (Vec::new(), Vec::new(), Vec::new());
                // three adjacent deletes first, then a random walk
                for _ in 0..3 {
                    sc.push(Call::Delete(old.len(), 1, 0));
                    old.push(90 + rng.below(2) as u32);
                }
                while sc.len() < target {
                    match rng.weighted(&[50, 25, 25]) {
                        0 => {
                            let l = 1 + rng.usize(2);
                            sc.push(Call::Equal(old.len(), new.len(), l));
                            for _ in 0..l {
                                let x = rng.below(alphabet as u64) as u32;
                                old.push(x);
                                new.push(x);
                            }
                        }
                        1 => {
                            let l = 1 + rng.usize(2);
                            sc.push(Call::Delete(old.len(), l, new.len()));
                            for _ in 0..l {
                                old.push(rng.below(alphabet as u64) as u32);
                            }
                        }
                        _ => {
                            let l = 1 + rng.usize(2);
                            sc.push(Call::Insert(old.len(), new.len(), l));
                            for _ in 0..l {
                                new.push(rng.below(alphabet as u64) as u32);
                            }
                        }
                    }
                }
                seq.old_range = (0, old.len());
                seq.new_range = (0, new.len());
                seq.old = old;
                seq.new = new;
                script = Some(sc);
            }
            _ => {}
        }
        // at other fixed places: an item appended to a run of about 2^20
        // identical items (slides up and down through the whole run: more than
        // 2^21 comparisons in one clean-up), followed by a small hunk
        if idx % 250_000 == 99 {
            let r = (1usize << 20) - 3 + ((idx / 250_000) % 4) as usize + 1;
            let (x, y) = (7u32, 9u32);
            let mut old = vec![0u32; r];
            old[0] = 5;
            old.extend_from_slice(&[x, x, y, y]);
            let mut new = vec![0u32; r + 1];
            new[0] = 5;
            new.extend_from_slice(&[x, x, y, y, x]);
            seq.old_range = (0, old.len());
            seq.new_range = (0, new.len());
            seq.old = old;
            seq.new = new;
            seq.index = IndexKind::Slice;
            script = Some(vec![
                Call::Equal(0, 0, r),
                Call::Insert(r, r, 1),
                Call::Equal(r, r + 1, 4),
                Call::Insert(r + 4, r + 5, 1),
            ]);
            cap = 6;
        }
        Case {
            seq,
            script_seed: rng.next(),
            script,
            stack: *rng.pick(&[
                Stack::Compact,
                Stack::Replace,
                Stack::CompactReplace,
                Stack::CompactReplace,
                Stack::ReplaceCompact,
                Stack::ReplaceRef,
                Stack::CompactReplaceRef,
                Stack::CompactRef,
            ]),
            reuse: rng.chance(1, 3),
            only_k: None,
            cap,
            sample_seed: rng.next(),
        }
    }
    fn exec(&self, case: &Case) -> RunOut {
        let mut out = RunOut::default();
        if let Err(f) = self.exec_inner(case, &mut out) {
            out.fail = Some(f);
        }
        out
    }
    fn focus(&self, case: &Case, fail: &Fail) -> Case {
        let mut c = case.clone();
        if c.script.is_none() {
            c.script = Some(gen_script(&mut Rng::new(case.script_seed), &case.seq));
        }
        if let Some(rest) = fail.detail.strip_prefix("k=") {
            if let Some(k) = rest.split(':').next().and_then(|s| s.parse().ok()) {
                c.only_k = Some(k);
            }
        } else {
            // the failure is in the fault-free pass: skip the enumeration
            c.cap = 1;
        }
        c
    }
    fn shrink(&self, case: &Case) -> Vec<Case> {
        let mut out = Vec::new();
        // new sequences need a new script: try a few script seeds per shrunk input
        // (not for giants: a random history over a million items keeps Compact
        // busy for minutes, and the wall-clock bound of the minimiser cannot
        // interrupt a running candidate)
        let giant = case.seq.old.len() + case.seq.new.len() > 20_000;
        for s in shrink_seq(&case.seq) {
            if giant && s.old.len() + s.new.len() > 20_000 {
                continue;
            }
            for t in 0..6u64 {
                let mut c = case.clone();
                c.seq = s.clone();
                c.script = None;
                c.script_seed = t;
                c.only_k = None;
                out.push(c);
            }
        }
        // simplify the script itself: merge two neighbouring calls of one kind
        if let Some(script) = &case.script {
            // long histories: a bounded sample of merge points (every
            // candidate is a copy of the whole case)
            let step = (script.len() / 48).max(1);
            for i in (0..script.len().saturating_sub(1)).step_by(step) {
                let merged = match (script[i], script[i + 1]) {
                    (Call::Equal(a, b, l), Call::Equal(_, _, l2)) => Some(Call::Equal(a, b, l + l2)),
                    (Call::Delete(a, l, b), Call::Delete(_, l2, _)) => Some(Call::Delete(a, l + l2, b)),
                    (Call::Insert(a, b, l), Call::Insert(_, _, l2)) => Some(Call::Insert(a, b, l + l2)),
                    _ => None,
                };
                if let Some(m) = merged {
                    let mut sc = script.clone();
                    sc[i] = m;
                    sc.remove(i + 1);
                    let mut c = case.clone();
                    c.script = Some(sc);
                    out.push(c);
                }
            }
        }
        out
    }
    fn reach(&self, agg: &Agg) -> Vec<(&'static str, u64)> {
        vec![
            ("compact_up_insert_shift", agg.hits[6]),
            ("compact_up_new_equal_inserted", agg.hits[7]),
            ("compact_up_equal_removed_because_emptied", agg.hits[8]),
            ("compact_up_swap", agg.hits[10]),
            ("compact_up_merge_insert", agg.hits[11]),
            ("compact_down_insert_shift", agg.hits[13]),
            ("compact_down_new_equal_inserted", agg.hits[14]),
            ("compact_down_equal_removed_because_emptied", agg.hits[15]),
            ("compact_down_swap", agg.hits[17]),
            ("compact_down_merge_insert", agg.hits[18]),
            ("compact_down_merge_delete", agg.hits[19]),
            ("replace_merged_del_ins", agg.hits[27]),
            ("adapter_fed_twice", agg.counters.get("adapter_fed_twice").copied().unwrap_or(0)),
            ("history_insert_before_delete", agg.faults[F_SCRIPT_INS_BEFORE_DEL]),
            ("history_interleaved", agg.faults[F_SCRIPT_INTERLEAVED]),
            ("histories_over_2^16_calls", agg.counters.get("history_over_65536_calls").copied().unwrap_or(0)),
            ("histories_over_far_index_spaces", agg.counters.get("far_index_space").copied().unwrap_or(0)),
        ]
    }
}
