//! C02 and C09 — captured op lists under {no deadline, expiry at every probe}:
//! valid edit script (C02) and canonical normal form (C09).  Both judge the
//! same simulated executions with different oracles.

use std::collections::BTreeMap;
use std::ops::Range;

use serde::{Deserialize, Serialize};
use serde_json::{json, Value};
use similar::algorithms::{Capture, Compact, Replace};
use similar::{
    capture_diff, capture_diff_deadline, capture_diff_slices, capture_diff_slices_deadline,
    get_diff_ratio, DiffOp, TextDiff,
};

use crate::engine::{guarded, Agg, Prop, RunOut, Tier};
use crate::gen::{gen_script, gen_seq_case, shrink_seq, SeqCase, Size};
use crate::oracle::{fail, normal_form, ops_of, walk_ops, Fail, Op};
use crate::prng::{Dig, Rng};
use crate::props::c07::{core_case, fault_points, DL};
use crate::simenv::{counted, instant_at, Call, Sched, SimClock, SimGuard};
use crate::with_lookups;

#[derive(Clone, Copy, Debug, Serialize, Deserialize, PartialEq, Eq)]
pub enum CapEntry {
    /// capture_diff / capture_diff_deadline with ranges and lookups
    Ranges,
    /// capture_diff_slices / capture_diff_slices_deadline on the core
    Slices,
    TextLines,
    TextWords,
    TextChars,
    TextUnicodeWords,
    TextGraphemes,
    /// a generated valid script pushed through Compact<Replace<Capture>>
    Script,
}

#[derive(Clone, Debug, Serialize, Deserialize)]
pub struct Case {
    pub seq: SeqCase,
    pub entry: CapEntry,
    /// text flavour: 0 ascii, 1 multibyte, 2 bytes ([u8] input), 3 tokens of
    /// a user-side `DiffableStr` type whose equality is not byte equality
    /// (tagged = finer, case-insensitive = coarser), through `diff_slices`
    pub flavour: u8,
    pub script_seed: u64,
    /// (old_len, new_len, deleted, inserted) of a synthetic valid op list over
    /// very long virtual sequences, for the ratio clause at sizes no real
    /// input of the batch reaches
    #[serde(default)]
    pub ratio_probe: Option<(u64, u64, u64, u64)>,
    pub only_k: Option<u64>,
    pub cap: u64,
    pub sample_seed: u64,
}

pub struct CapOut {
    pub raw: Vec<DiffOp>,
    pub ops: Vec<Op>,
    pub old_ids: Vec<u32>,
    pub new_ids: Vec<u32>,
    pub or: Range<usize>,
    pub nr: Range<usize>,
    pub probes: u64,
    pub first_expired: Option<u64>,
    pub text_ratio: Option<f32>,
    pub hits: [u64; similar::verif::HITS],
    pub clock_dig: u64,
}

const WORDS: [&str; 12] = [
    "a", "bb", "ccc", "x1", "y_2", "foo", "bar", "q", "zz", "Hello", "w0rld", "k",
];
const MWORDS: [&str; 12] = [
    "ä", "ßß", "日本", "x1", "é_2", "föö", "bar", "ω", "zz", "Привет", "w0rld", "🙂",
];
const CHARS: [char; 12] = ['a', 'b', 'c', 'd', ' ', 'e', '\n', 'f', 'g', 'h', 'i', 'j'];
const MCHARS: [char; 12] = ['a', 'ä', '日', 'd', ' ', 'ω', '\n', 'f', '🙂', 'h', 'é', 'j'];

fn word(flavour: u8, x: u32) -> String {
    let table = if flavour == 0 { &WORDS } else { &MWORDS };
    if (x as usize) < table.len() {
        table[x as usize].to_string()
    } else {
        format!("w{}", x)
    }
}

fn build_text(entry: CapEntry, flavour: u8, xs: &[u32]) -> String {
    let mut s = String::new();
    match entry {
        CapEntry::TextLines => {
            for (i, &x) in xs.iter().enumerate() {
                s.push_str(&word(flavour, x));
                // the last line sometimes lacks its terminator
                if i + 1 < xs.len() || x % 3 != 0 {
                    s.push_str(match x % 5 {
                        0 => "\r\n",
                        _ => "\n",
                    });
                }
            }
        }
        CapEntry::TextChars | CapEntry::TextGraphemes => {
            let table = if flavour == 0 { &CHARS } else { &MCHARS };
            for &x in xs {
                s.push(table[(x as usize) % table.len()]);
            }
        }
        _ => {
            for (i, &x) in xs.iter().enumerate() {
                if i > 0 {
                    s.push(if x % 7 == 0 { '\n' } else { ' ' });
                }
                s.push_str(&word(flavour, x));
            }
        }
    }
    s
}

fn intern<'a, T: Ord + ?Sized>(table: &mut BTreeMap<&'a T, u32>, toks: &[&'a T]) -> Vec<u32> {
    toks.iter()
        .map(|t| {
            let n = table.len() as u32;
            *table.entry(*t).or_insert(n)
        })
        .collect()
}

pub fn cap_run(case: &Case, deadline: bool, sched: Sched) -> Result<CapOut, String> {
    let seq = &case.seq;
    let clock = SimClock::new(sched);
    let _guard = SimGuard::new(Some(clock.clone()), seq.hasher);
    let _ = similar::verif::take_hits();
    let dl = if deadline { Some(instant_at(DL)) } else { None };
    let alg = seq.alg.to();
    let mut text_ratio = None;
    let (raw, old_ids, new_ids, or, nr) = match case.entry {
        CapEntry::Ranges if case.flavour == 3 && seq.index == crate::gen::IndexKind::Slice => {
            // different item types on the two sides, hashed differently (the
            // bounds only ask for equality across the sides)
            let o: Vec<u64> = seq.old.iter().map(|x| *x as u64).collect();
            let n: Vec<crate::props::c20::Other> =
                seq.new.iter().map(|x| crate::props::c20::Other(*x as u64)).collect();
            let ops = guarded(|| {
                if deadline {
                    capture_diff_deadline(alg, &o[..], seq.or(), &n[..], seq.nr(), dl)
                } else {
                    capture_diff(alg, &o[..], seq.or(), &n[..], seq.nr())
                }
            })?;
            (ops, seq.old.clone(), seq.new.clone(), seq.or(), seq.nr())
        }
        CapEntry::Ranges => {
            let oldc = counted(&seq.old);
            let newc = counted(&seq.new);
            let ops = guarded(|| {
                with_lookups!(seq, oldc, newc, |o, n| {
                    if deadline {
                        capture_diff_deadline(alg, o, seq.or_abs(), n, seq.nr_abs(), dl)
                    } else {
                        capture_diff(alg, o, seq.or_abs(), n, seq.nr_abs())
                    }
                })
            })?;
            (ops, seq.old.clone(), seq.new.clone(), seq.or(), seq.nr())
        }
        CapEntry::Slices => {
            let o = seq.old_core();
            let n = seq.new_core();
            let ops = guarded(|| {
                if deadline {
                    capture_diff_slices_deadline(alg, o, n, dl)
                } else {
                    capture_diff_slices(alg, o, n)
                }
            })?;
            (ops, o.to_vec(), n.to_vec(), 0..o.len(), 0..n.len())
        }
        CapEntry::Script => {
            let script = gen_script(&mut Rng::new(case.script_seed), seq);
            let ops = guarded(|| {
                let mut d = Compact::new(Replace::new(Capture::new()), &seq.old[..], &seq.new[..]);
                use similar::algorithms::DiffHook;
                for c in &script {
                    match *c {
                        Call::Equal(a, b, l) => d.equal(a, b, l).unwrap(),
                        Call::Delete(a, l, b) => d.delete(a, l, b).unwrap(),
                        Call::Insert(a, b, l) => d.insert(a, b, l).unwrap(),
                        _ => unreachable!(),
                    }
                }
                d.finish().unwrap();
                d.into_inner().into_inner().into_ops()
            })?;
            (ops, seq.old.clone(), seq.new.clone(), seq.or(), seq.nr())
        }
        _ => {
            let ot = build_text(case.entry, case.flavour, seq.old_core());
            let nt = build_text(case.entry, case.flavour, seq.new_core());
            let r = guarded(|| {
                let mut cfg = TextDiff::configure();
                cfg.algorithm(alg);
                if deadline {
                    cfg.deadline(instant_at(DL));
                }
                // the `TextDiff::from_*` shortcuts stand for the default
                // configuration (Myers, no deadline)
                let shortcut = !deadline && alg == similar::Algorithm::Myers && case.script_seed & 2 == 2;
                macro_rules! finish {
                    ($diff:expr) => {{
                        let diff = $diff;
                        let mut table = BTreeMap::new();
                        let o = intern(&mut table, diff.old_slices());
                        let n = intern(&mut table, diff.new_slices());
                        (diff.ops().to_vec(), o, n, diff.ratio())
                    }};
                }
                if case.flavour == 3 {
                    use crate::custom_str::{nocase, tagged, NoCase, Tagged};
                    if seq.hasher.1 & 4 == 0 {
                        let o: Vec<Tagged> = seq.old_core().iter().map(|x| tagged(*x)).collect();
                        let n: Vec<Tagged> = seq.new_core().iter().map(|x| tagged(*x)).collect();
                        let (o, n): (Vec<&Tagged>, Vec<&Tagged>) = (o.iter().collect(), n.iter().collect());
                        finish!(cfg.diff_slices(&o, &n))
                    } else {
                        let o: Vec<NoCase> = seq.old_core().iter().enumerate().map(|(i, x)| nocase(*x, i)).collect();
                        let n: Vec<NoCase> = seq.new_core().iter().enumerate().map(|(i, x)| nocase(*x, i + 1)).collect();
                        let (o, n): (Vec<&NoCase>, Vec<&NoCase>) = (o.iter().collect(), n.iter().collect());
                        finish!(cfg.diff_slices(&o, &n))
                    }
                } else if case.flavour == 2 {
                    // half of the byte texts carry ill-formed UTF-8
                    let (ob, nb) = if case.script_seed & 1 == 1 {
                        let mut r = Rng::new(case.script_seed);
                        (
                            crate::gen::splice_ill_formed(&mut r, ot.as_bytes()),
                            crate::gen::splice_ill_formed(&mut r, nt.as_bytes()),
                        )
                    } else {
                        (ot.as_bytes().to_vec(), nt.as_bytes().to_vec())
                    };
                    let (ob, nb) = (&ob[..], &nb[..]);
                    match case.entry {
                        _ if shortcut => match case.entry {
                            CapEntry::TextLines => finish!(TextDiff::from_lines(ob, nb)),
                            CapEntry::TextChars => finish!(TextDiff::from_chars(ob, nb)),
                            #[cfg(feature = "unicode")]
                            CapEntry::TextUnicodeWords => finish!(TextDiff::from_unicode_words(ob, nb)),
                            #[cfg(feature = "unicode")]
                            CapEntry::TextGraphemes => finish!(TextDiff::from_graphemes(ob, nb)),
                            _ => finish!(TextDiff::from_words(ob, nb)),
                        },
                        CapEntry::TextLines => finish!(cfg.diff_lines(ob, nb)),
                        CapEntry::TextWords => finish!(cfg.diff_words(ob, nb)),
                        CapEntry::TextChars => finish!(cfg.diff_chars(ob, nb)),
                        #[cfg(feature = "unicode")]
                        CapEntry::TextUnicodeWords => finish!(cfg.diff_unicode_words(ob, nb)),
                        #[cfg(feature = "unicode")]
                        CapEntry::TextGraphemes => finish!(cfg.diff_graphemes(ob, nb)),
                        _ => finish!(cfg.diff_words(ob, nb)),
                    }
                } else {
                    let (os, ns) = (ot.as_str(), nt.as_str());
                    match case.entry {
                        _ if shortcut => match case.entry {
                            CapEntry::TextLines => finish!(TextDiff::from_lines(os, ns)),
                            CapEntry::TextChars => finish!(TextDiff::from_chars(os, ns)),
                            #[cfg(feature = "unicode")]
                            CapEntry::TextUnicodeWords => finish!(TextDiff::from_unicode_words(os, ns)),
                            #[cfg(feature = "unicode")]
                            CapEntry::TextGraphemes => finish!(TextDiff::from_graphemes(os, ns)),
                            _ => finish!(TextDiff::from_words(os, ns)),
                        },
                        CapEntry::TextLines => finish!(cfg.diff_lines(os, ns)),
                        CapEntry::TextWords => finish!(cfg.diff_words(os, ns)),
                        CapEntry::TextChars => finish!(cfg.diff_chars(os, ns)),
                        #[cfg(feature = "unicode")]
                        CapEntry::TextUnicodeWords => finish!(cfg.diff_unicode_words(os, ns)),
                        #[cfg(feature = "unicode")]
                        CapEntry::TextGraphemes => finish!(cfg.diff_graphemes(os, ns)),
                        _ => finish!(cfg.diff_words(os, ns)),
                    }
                }
            })?;
            text_ratio = Some(r.3);
            let (n, m) = (r.1.len(), r.2.len());
            (r.0, r.1, r.2, 0..n, 0..m)
        }
    };
    let st = clock.borrow();
    let (so, sn) = if case.entry == CapEntry::Ranges {
        seq.shifts()
    } else {
        (0, 0)
    };
    // the ratio is computed from op lengths only, so `raw` may stay shifted
    let ops = crate::oracle::unshift_ops(ops_of(&raw), so, sn)?;
    Ok(CapOut {
        ops,
        raw,
        old_ids,
        new_ids,
        or,
        nr,
        probes: st.probes,
        first_expired: st.first_expired,
        text_ratio,
        hits: similar::verif::take_hits(),
        clock_dig: st.dig.finish(),
    })
}

#[derive(Clone, Copy, PartialEq, Eq)]
pub enum Which {
    C02,
    C09,
}

pub struct CapProp(pub Which);

fn judge_c02(o: &CapOut) -> Result<(), Fail> {
    walk_ops(&o.ops, &o.old_ids, &o.new_ids, o.or.clone(), o.nr.clone())?;
    // (start > end is an empty range)
    let a = &o.old_ids[o.or.start..o.or.end.max(o.or.start)];
    let b = &o.new_ids[o.nr.start..o.nr.end.max(o.nr.start)];
    let same = a == b;
    if same {
        if let Some(op) = o.ops.iter().find(|op| !op.is_equal()) {
            return fail(
                "c02.identical_only_equal",
                format!("identical inputs produced {:?}", op),
            );
        }
        if a.is_empty() && !o.ops.is_empty() {
            return fail(
                "c02.empty_no_ops",
                format!("two empty inputs produced {:?}", o.ops),
            );
        }
    }
    let mut ratios = vec![get_diff_ratio(&o.raw, a.len(), b.len())];
    if let Some(r) = o.text_ratio {
        ratios.push(r);
    }
    for r in ratios {
        if !(0.0..=1.0).contains(&r) {
            return fail("c02.ratio_range", format!("ratio {} outside 0..=1", r));
        }
        if (r == 1.0) != same {
            return fail(
                "c02.ratio_one_iff_equal",
                format!("ratio {} but inputs equal = {}", r, same),
            );
        }
    }
    Ok(())
}

/// The ratio clause on a synthetic, valid op list `Equal, Delete?, Insert?`
/// over virtual sequences of the given lengths.
fn judge_ratio_probe(p: (u64, u64, u64, u64)) -> Result<(), Fail> {
    let (old_len, new_len, del, ins) = p;
    let (old_len, new_len, del, ins) = (old_len as usize, new_len as usize, del as usize, ins as usize);
    let eq = old_len - del;
    if eq != new_len - ins {
        return fail("c02.harness_ratio_probe", format!("inconsistent probe {:?}", p));
    }
    let mut ops = Vec::new();
    if eq > 0 {
        ops.push(DiffOp::Equal {
            old_index: 0,
            new_index: 0,
            len: eq,
        });
    }
    match (del > 0, ins > 0) {
        (true, true) => ops.push(DiffOp::Replace {
            old_index: eq,
            old_len: del,
            new_index: eq,
            new_len: ins,
        }),
        (true, false) => ops.push(DiffOp::Delete {
            old_index: eq,
            old_len: del,
            new_index: eq,
        }),
        (false, true) => ops.push(DiffOp::Insert {
            old_index: eq,
            new_index: eq,
            new_len: ins,
        }),
        _ => {}
    }
    let r = get_diff_ratio(&ops, old_len, new_len);
    let same = del == 0 && ins == 0;
    if !(0.0..=1.0).contains(&r) {
        return fail(
            "c02.ratio_range",
            format!("ratio {} outside 0..=1 for lengths {}/{} with {} deleted, {} inserted", r, old_len, new_len, del, ins),
        );
    }
    if (r == 1.0) != same {
        return fail(
            "c02.ratio_one_iff_equal",
            format!(
                "ratio {} for sequences of {} and {} items with {} deleted and {} inserted (equal = {})",
                r, old_len, new_len, del, ins, same
            ),
        );
    }
    Ok(())
}

fn judge_c09(o: &CapOut) -> Result<(), Fail> {
    normal_form(&o.ops, &o.new_ids)
}

pub const F_NONE: usize = 0;
pub const F_EXP0: usize = 1;
pub const F_EXPMID: usize = 2;
pub const F_NEVER: usize = 3;
pub const F_SCRIPT: usize = 4;

impl CapProp {
    fn judge(&self, o: &CapOut) -> Result<(), Fail> {
        match self.0 {
            Which::C02 => judge_c02(o),
            Which::C09 => judge_c09(o),
        }
    }

    fn exec_inner(&self, case: &Case, out: &mut RunOut) -> Result<(), Fail> {
        let mut dig = Dig::new();
        let tagk = |k: u64| {
            move |f: Fail| Fail {
                clause: f.clause,
                detail: format!("k={}: {}", k, f.detail),
            }
        };
        if self.0 == Which::C02 {
            if let Some(p) = case.ratio_probe {
                judge_ratio_probe(p).map_err(|f| Fail {
                    clause: f.clause,
                    detail: format!("ratio probe: {}", f.detail),
                })?;
                out.count("ratio_probes_on_long_virtual_sequences", 1);
            }
        }
        if case.seq.old.len() > 4000 {
            out.count("fragmented_cases", 1);
        }
        if case.seq.old.len() > 4000 && case.seq.old.len() < 70_000 && case.entry != CapEntry::Script {
            out.count("cases_above_4000_items", 1);
        }
        // fault-free configuration, judged separately
        if case.only_k.is_none() {
            let none = cap_run(case, false, Sched::Never).map_err(|m| Fail {
                clause: "cap.panic_no_deadline",
                detail: format!("none: {}", m),
            })?;
            out.execs += 1;
            out.faults[F_NONE] += 1;
            crate::engine::trace(|| format!("{:?} {:?} no deadline: ops={:?}", case.entry, case.seq.alg, none.ops));
            self.judge(&none).map_err(|f| Fail {
                clause: f.clause,
                detail: format!("none: {}", f.detail),
            })?;
            for op in &none.ops {
                dig.add_all(&op.code());
            }
            for i in 0..none.hits.len() {
                out.hits[i] += none.hits[i];
            }
            if case.entry == CapEntry::Script {
                out.faults[F_SCRIPT] += 1;
                let mut d = Dig::new();
                d.add(900);
                for op in &none.ops {
                    d.add_all(&op.code());
                }
                // a script run is non-trivial when Compact rewrote something
                if none.hits[6..20].iter().any(|&h| h > 0) {
                    out.nontrivial_digests.push(d.finish());
                }
            }
        }
        if case.entry == CapEntry::Script {
            out.digest = dig.finish();
            return Ok(());
        }
        let dry = cap_run(case, true, Sched::Never).map_err(|m| Fail {
            clause: "cap.panic",
            detail: format!("never-expiring deadline: {}", m),
        })?;
        out.execs += 1;
        let kmax = dry.probes;
        out.gauge("max_probes_per_case", kmax);
        for k in fault_points(kmax, case.cap, case.sample_seed, case.only_k) {
            let run = cap_run(case, true, Sched::Indexed(k)).map_err(|m| Fail {
                clause: "cap.panic",
                detail: format!("k={}: {}", k, m),
            })?;
            out.execs += 1;
            crate::engine::trace(|| format!("{:?} {:?} k={} of K={}: first_expired={:?} ops={:?}", case.entry, case.seq.alg, k, kmax, run.first_expired, run.ops));
            self.judge(&run).map_err(tagk(k))?;
            if k < kmax {
                out.faults[if k == 0 { F_EXP0 } else { F_EXPMID }] += 1;
                let mut d = Dig::new();
                d.add_all(&[case.entry as u64, case.seq.alg.code(), k]);
                for op in &run.ops {
                    d.add_all(&op.code());
                }
                out.nontrivial_digests.push(d.finish());
                if run.hits[10] + run.hits[17] > 0 {
                    out.count("compact_swapped_under_expiry", 1);
                }
                if run.hits[6] + run.hits[13] > 0 {
                    out.count("compact_slid_under_expiry", 1);
                }
            } else {
                out.faults[F_NEVER] += 1;
            }
            dig.add(k);
            for op in &run.ops {
                dig.add_all(&op.code());
            }
            dig.add(run.clock_dig);
            for i in 0..run.hits.len() {
                out.hits[i] += run.hits[i];
            }
        }
        out.digest = dig.finish();
        Ok(())
    }
}

impl Prop for CapProp {
    type Case = Case;

    fn id(&self) -> &'static str {
        match self.0 {
            Which::C02 => "C02",
            Which::C09 => "C09",
        }
    }
    fn level(&self) -> &'static str {
        "exploration"
    }
    fn rule(&self) -> &'static str {
        match self.0 {
            Which::C02 => "cases drawn from the run seed (algorithm, sequence pair, sub-ranges, lookup kind, hasher, entry point: capture_diff(_deadline) with ranges, capture_diff_slices(_deadline), TextDiff lines/words/chars/unicode words/graphemes on str and [u8]); each case is executed without deadline (judged separately) and with the deadline expiring at every probe k in 0..=K (sampled beyond the cap); oracle: independent validity walk, apply and invert, identical inputs => only Equal, ratio in 0..=1 and 1.0 iff equal. evaluations = executions; distinct non-trivial = distinct (entry, algorithm, k, resulting ops) among executions in which the deadline actually expired",
            Which::C09 => "same simulated executions as C02 (no deadline, and expiry at every probe k), plus generated valid scripts (random monotone alignments, arbitrary delete/insert interleavings) pushed through Compact<Replace<Capture>>; oracle: strict Equal/non-Equal alternation, no empty op, no Delete adjacent to Insert, pure Insert followed by Equal sits at its latest position. distinct non-trivial = distinct (entry, algorithm, k, ops) among executions with an expired deadline, plus script runs in which Compact actually rewrote something",
        }
    }
    fn fault_names(&self) -> Vec<&'static str> {
        vec![
            "no_deadline(fault-free configuration)",
            "expiry_before_start(k=0)",
            "expiry_at_later_probe",
            "deadline_present_never_expires",
            "generated_script_history",
        ]
    }
    fn components(&self) -> Value {
        json!({
            "real": ["capture_diff*, TextDiff::configure().diff_*", "myers/patience/lcs", "Compact", "Replace", "Capture", "get_diff_ratio / TextDiff::ratio", "tokenizers (str, [u8])"],
            "simulated": ["clock (indexed expiry at probe k)", "hasher", "lookups (slice/window/IdentifyDistinct)", "script producer (C09 only)"]
        })
    }
    fn assumptions(&self) -> Vec<&'static str> {
        vec![
            "the no-deadline half of the quantifier is a pure function of the input and is only sampled",
            "text entry points are judged against the token slices the diff itself exposes (tokenizer correctness is C04/C06, not claimed)",
        ]
    }
    fn runs(&self, tier: Tier) -> u64 {
        match tier {
            Tier::Quick => 40_000,
            Tier::Thorough => 500_000,
        }
    }
    fn gen(&self, rng: &mut Rng, tier: Tier, _idx: u64) -> Case {
        let size = match tier {
            Tier::Quick => match rng.weighted(&[72, 24, 4]) {
                0 => Size::Small,
                1 => Size::Medium,
                _ => Size::Large,
            },
            Tier::Thorough => match rng.weighted(&[120, 60, 19, 1]) {
                0 => Size::Small,
                1 => Size::Medium,
                2 => Size::Large,
                _ => Size::Huge(700),
            },
        };
        let mut seq = gen_seq_case(rng, size, None);
        crate::gen::maybe_reverse_empty(rng, &mut seq);
        let mut weights = vec![30u64, 10, 8, 8, 8, 4, 4, 0];
        if self.0 == Which::C09 {
            weights[7] = 25;
        }
        if !cfg!(feature = "unicode") {
            weights[5] = 0;
            weights[6] = 0;
        }
        let entry = [
            CapEntry::Ranges,
            CapEntry::Slices,
            CapEntry::TextLines,
            CapEntry::TextWords,
            CapEntry::TextChars,
            CapEntry::TextUnicodeWords,
            CapEntry::TextGraphemes,
            CapEntry::Script,
        ][rng.weighted(&weights)];
        let mut seq = seq;
        // rarely: thousands of hunks (more than 4096 raw ops reach Compact)
        let fragmented = entry != CapEntry::Script
            && rng.chance(if tier == Tier::Quick { 1 } else { 2 }, 600);
        if fragmented {
            let blocks = 2300 + rng.usize(600);
            let (o, n) = crate::gen::gen_fragmented(rng, blocks);
            seq.old_range = (0, o.len());
            seq.new_range = (0, n.len());
            seq.old = o;
            seq.new = n;
            seq.index = crate::gen::IndexKind::Slice;
            if seq.alg == crate::gen::Alg::Lcs {
                seq.alg = crate::gen::Alg::Myers;
            }
            if seq.hasher.0 == 1 || seq.hasher.0 == 2 {
                seq.hasher.0 = 0;
            }
        }
        let entry = if fragmented && !matches!(entry, CapEntry::Ranges | CapEntry::Slices) {
            CapEntry::Slices
        } else {
            entry
        };
        // very rarely: inputs just above typical internal limits
        let giant = if entry != CapEntry::Script && !fragmented {
            match rng.below(if tier == Tier::Quick { 36_000 } else { 60_000 }) {
                0..=2 => 1,
                3..=5 => 2,
                6..=8 => 3,
                9..=20 => 4,
                21..=23 => 5,
                24..=31 => 6,
                32..=39 => 7,
                40..=45 => 8,
                46..=51 => 9,
                _ => 0,
            }
        } else {
            0
        };
        let mut entry = entry;
        if giant != 0 {
            let (o, n) = match giant {
                1 => crate::gen::gen_many_distinct(rng),
                2 => crate::gen::gen_many_cells(rng),
                3 => crate::gen::gen_big_slide(rng),
                4 => crate::gen::gen_long_run(rng),
                5 => crate::gen::gen_big_gap(rng),
                6 => crate::gen::gen_lopsided(rng),
                8 => {
                    let bits = 16 + rng.below(2) as u32;
                    crate::gen::gen_long_anchor_run_sized(rng, bits)
                }
                9 => crate::gen::gen_big_edited_copy(rng),
                _ => crate::gen::gen_composite(rng),
            };
            seq.old_range = (0, o.len());
            seq.new_range = (0, n.len());
            seq.old = o;
            seq.new = n;
            seq.index = crate::gen::IndexKind::Slice;
            seq.hasher.0 = 0;
            seq.alg = match giant {
                1 => *rng.pick(&[crate::gen::Alg::Myers, crate::gen::Alg::Patience]),
                2 => crate::gen::Alg::Lcs,
                4 => *rng.pick(&[crate::gen::Alg::Myers, crate::gen::Alg::Patience, crate::gen::Alg::Myers]),
                5 | 8 => crate::gen::Alg::Patience,
                6 | 7 | 9 => *rng.pick(&[crate::gen::Alg::Myers, crate::gen::Alg::Patience]),
                _ => *rng.pick(&crate::gen::ALGS),
            };
            // a quadratic table is only affordable for moderate sizes
            if giant == 7 && seq.old.len().saturating_mul(seq.new.len()) <= 1 << 20 && rng.chance(1, 3) {
                seq.alg = crate::gen::Alg::Lcs;
            }
            // the 16-bit id question only exists behind the text builder
            entry = match giant {
                1 => CapEntry::TextLines,
                4 | 7 | 8 if rng.chance(1, 2) => CapEntry::TextLines,
                _ => CapEntry::Slices,
            };
            // half of the giants that go through the capture functions sit in
            // sub-ranges that do not start at index 0 (plain or far lookups)
            if entry == CapEntry::Slices && rng.chance(1, 2) {
                let (po, pn) = (1 + rng.usize(7), 1 + rng.usize(7));
                let mut o: Vec<u32> = (0..po as u32).map(|i| 3_000_000 + i).collect();
                let mut n: Vec<u32> = (0..pn as u32).map(|i| 4_000_000 + i).collect();
                o.extend_from_slice(&seq.old);
                n.extend_from_slice(&seq.new);
                // (and a little unrelated material behind the ranges)
                seq.old_range = (po, o.len());
                seq.new_range = (pn, n.len());
                o.push(5_000_000);
                n.push(5_000_001);
                seq.old = o;
                seq.new = n;
                seq.index = if rng.chance(1, 3) { crate::gen::IndexKind::Far } else { crate::gen::IndexKind::Slice };
                entry = CapEntry::Ranges;
            }
        }
        if entry == CapEntry::Script && seq.n() + seq.m() > 80 {
            // scripts exercise Compact, small inputs with repeats do that best
            seq = gen_seq_case(rng, Size::Small, None);
        }
        Case {
            seq,
            entry,
            flavour: rng.below(4) as u8,
            script_seed: rng.next(),
            ratio_probe: {
                // lengths up to 2^40, few or no edits
                let bits = 1 + rng.below(40);
                let eq = rng.below(1u64 << bits);
                let del = if rng.chance(1, 3) { 0 } else { rng.below(4) };
                let ins = if rng.chance(1, 3) { 0 } else { rng.below(4) };
                Some((eq + del, eq + ins, del, ins))
            },
            only_k: None,
            cap: match (tier, size) {
                _ if giant != 0 => 3,
                _ if fragmented => 4,
                (Tier::Quick, Size::Small) | (Tier::Quick, Size::Medium) => 256,
                (Tier::Quick, _) => 16,
                (Tier::Thorough, Size::Huge(_)) => 8,
                (Tier::Thorough, Size::Large) => 64,
                (Tier::Thorough, _) => 4096,
            },
            sample_seed: rng.next(),
        }
    }
    fn exec(&self, case: &Case) -> RunOut {
        let mut out = RunOut::default();
        if let Err(f) = self.exec_inner(case, &mut out) {
            out.fail = Some(f);
        }
        out
    }
    fn focus(&self, case: &Case, fail: &Fail) -> Case {
        let mut c = case.clone();
        if let Some(rest) = fail.detail.strip_prefix("k=") {
            if let Some(k) = rest.split(':').next().and_then(|s| s.parse().ok()) {
                c.only_k = Some(k);
            }
        }
        c
    }
    fn shrink(&self, case: &Case) -> Vec<Case> {
        let mut out = Vec::new();
        if let Some((o, _n, d, i)) = case.ratio_probe {
            // halve the common part of the probe
            let eq = o - d;
            for neq in [eq / 2, eq - eq / 16, eq.saturating_sub(1)] {
                if neq < eq {
                    let mut c = case.clone();
                    c.ratio_probe = Some((neq + d, neq + i, d, i));
                    out.push(c);
                }
            }
        }
        if case.entry != CapEntry::Ranges && case.entry != CapEntry::Script {
            // text and slice entries only see the core; try the plain entry
            let mut c = case.clone();
            c.seq = core_case(&case.seq);
            c.entry = CapEntry::Slices;
            c.only_k = None;
            if case.entry != CapEntry::Slices {
                out.push(c);
            }
        }
        if case.flavour != 0 {
            let mut c = case.clone();
            c.flavour = 0;
            out.push(c);
        }
        for s in shrink_seq(&case.seq) {
            let mut c = case.clone();
            c.seq = s;
            c.only_k = None;
            c.cap = 64;
            out.push(c);
        }
        if case.entry == CapEntry::Script {
            for t in 0..8u64 {
                let mut c = case.clone();
                c.script_seed = t;
                if c.script_seed != case.script_seed && case.script_seed >= 8 {
                    out.push(c);
                }
            }
        }
        out
    }
    fn reach(&self, agg: &Agg) -> Vec<(&'static str, u64)> {
        let c = |k: &str| agg.counters.get(k).copied().unwrap_or(0);
        vec![
            ("compact_swapped_under_expiry", c("compact_swapped_under_expiry")),
            ("compact_slid_under_expiry", c("compact_slid_under_expiry")),
            ("compact_insert_shift_up", agg.hits[6]),
            ("compact_insert_shift_down", agg.hits[13]),
            ("compact_swap_up", agg.hits[10]),
            ("compact_swap_down", agg.hits[17]),
            ("compact_merge", agg.hits[11] + agg.hits[12] + agg.hits[18] + agg.hits[19]),
            ("replace_merged_del_ins", agg.hits[27]),
            ("text_over_100_tokens", agg.hits[24]),
            ("cases_with_thousands_of_hunks", c("fragmented_cases")),
            ("myers_deadline_fallback", agg.hits[0]),
            ("lcs_table_abandoned", agg.hits[2]),
        ]
    }
}
