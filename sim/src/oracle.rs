//! Shared oracles. None of them calls into `similar` to decide anything; they
//! only read the plain data of `DiffOp` values.

use std::ops::Range;

use similar::DiffOp;

use crate::simenv::Call;

/// A clause of a property that failed, with a human readable detail.
#[derive(Clone, Debug, PartialEq)]
pub struct Fail {
    pub clause: &'static str,
    pub detail: String,
}

pub fn fail<T>(clause: &'static str, detail: String) -> Result<T, Fail> {
    Err(Fail { clause, detail })
}

#[derive(Clone, Copy, Debug, PartialEq, Eq)]
pub enum Op {
    Equal(usize, usize, usize),
    Delete(usize, usize, usize),
    Insert(usize, usize, usize),
    Replace(usize, usize, usize, usize),
}

pub fn ops_of(ops: &[DiffOp]) -> Vec<Op> {
    ops.iter()
        .map(|op| match *op {
            DiffOp::Equal {
                old_index,
                new_index,
                len,
            } => Op::Equal(old_index, new_index, len),
            DiffOp::Delete {
                old_index,
                old_len,
                new_index,
            } => Op::Delete(old_index, old_len, new_index),
            DiffOp::Insert {
                old_index,
                new_index,
                new_len,
            } => Op::Insert(old_index, new_index, new_len),
            DiffOp::Replace {
                old_index,
                old_len,
                new_index,
                new_len,
            } => Op::Replace(old_index, old_len, new_index, new_len),
        })
        .collect()
}

impl Op {
    pub fn code(&self) -> [u64; 5] {
        match *self {
            Op::Equal(a, b, c) => [1, a as u64, b as u64, c as u64, 0],
            Op::Delete(a, b, c) => [2, a as u64, b as u64, c as u64, 0],
            Op::Insert(a, b, c) => [3, a as u64, b as u64, c as u64, 0],
            Op::Replace(a, b, c, d) => [4, a as u64, b as u64, c as u64, d as u64],
        }
    }
    pub fn is_equal(&self) -> bool {
        matches!(self, Op::Equal(..))
    }
    /// (old_start, old_len, new_start, new_len) with carried indices ignored
    pub fn spans(&self) -> (Option<usize>, usize, Option<usize>, usize) {
        match *self {
            Op::Equal(o, n, l) => (Some(o), l, Some(n), l),
            Op::Delete(o, l, _) => (Some(o), l, None, 0),
            Op::Insert(_, n, l) => (None, 0, Some(n), l),
            Op::Replace(o, ol, n, nl) => (Some(o), ol, Some(n), nl),
        }
    }
    pub fn deleted(&self) -> usize {
        match *self {
            Op::Delete(_, l, _) => l,
            Op::Replace(_, l, _, _) => l,
            _ => 0,
        }
    }
    pub fn inserted(&self) -> usize {
        match *self {
            Op::Insert(_, _, l) => l,
            Op::Replace(_, _, _, l) => l,
            _ => 0,
        }
    }
}

/// Subtracts the index shifts of `Far` lookups from captured ops; an index
/// below its shift (a position the caller never handed out) is an error.
pub fn unshift_ops(ops: Vec<Op>, so: usize, sn: usize) -> Result<Vec<Op>, String> {
    if so == 0 && sn == 0 {
        return Ok(ops);
    }
    ops.into_iter()
        .map(|op| {
            let bad = || format!("{:?} reports an index below the start of the caller's sequence", op);
            Ok(match op {
                Op::Equal(o, n, l) => Op::Equal(o.checked_sub(so).ok_or_else(bad)?, n.checked_sub(sn).ok_or_else(bad)?, l),
                Op::Delete(o, l, n) => Op::Delete(o.checked_sub(so).ok_or_else(bad)?, l, n.checked_sub(sn).ok_or_else(bad)?),
                Op::Insert(o, n, l) => Op::Insert(o.checked_sub(so).ok_or_else(bad)?, n.checked_sub(sn).ok_or_else(bad)?, l),
                Op::Replace(o, ol, n, nl) => {
                    Op::Replace(o.checked_sub(so).ok_or_else(bad)?, ol, n.checked_sub(sn).ok_or_else(bad)?, nl)
                }
            })
        })
        .collect()
}

pub fn calls_to_ops(calls: &[Call]) -> Vec<Op> {
    calls
        .iter()
        .filter_map(|c| match *c {
            Call::Equal(a, b, c) => Some(Op::Equal(a, b, c)),
            Call::Delete(a, b, c) => Some(Op::Delete(a, b, c)),
            Call::Insert(a, b, c) => Some(Op::Insert(a, b, c)),
            Call::Replace(a, b, c, d) => Some(Op::Replace(a, b, c, d)),
            Call::Finish => None,
        })
        .collect()
}

/// Validity walk over a captured op list ("as in C02"): every op consumes
/// exactly the next unconsumed items, Equal ops pair equal items, the walk
/// ends at both range ends; then apply and invert are recomputed.  Carried
/// indices of Delete/Insert are deliberately not judged here (that is C11).
pub fn walk_ops(
    ops: &[Op],
    old: &[u32],
    new: &[u32],
    old_range: Range<usize>,
    new_range: Range<usize>,
) -> Result<(), Fail> {
    // start > end is an empty range
    let old_range = old_range.start..old_range.end.max(old_range.start);
    let new_range = new_range.start..new_range.end.max(new_range.start);
    let (mut oi, mut ni) = (old_range.start, new_range.start);
    for (idx, op) in ops.iter().enumerate() {
        let (os, ol, ns, nl) = op.spans();
        if let Some(os) = os {
            if os != oi {
                return fail(
                    "ops.old_contiguous",
                    format!("op {} {:?}: old start {} but cursor {}", idx, op, os, oi),
                );
            }
        }
        if let Some(ns) = ns {
            if ns != ni {
                return fail(
                    "ops.new_contiguous",
                    format!("op {} {:?}: new start {} but cursor {}", idx, op, ns, ni),
                );
            }
        }
        if oi + ol > old_range.end || ni + nl > new_range.end {
            return fail(
                "ops.in_range",
                format!("op {} {:?} runs past the range end", idx, op),
            );
        }
        if let Op::Equal(o, n, l) = *op {
            for t in 0..l {
                if old[o + t] != new[n + t] {
                    return fail(
                        "ops.equal_items",
                        format!("op {} {:?}: old[{}] != new[{}]", idx, op, o + t, n + t),
                    );
                }
            }
        }
        oi += ol;
        ni += nl;
    }
    if oi != old_range.end || ni != new_range.end {
        return fail(
            "ops.cover",
            format!(
                "walk ended at ({}, {}) instead of ({}, {})",
                oi, ni, old_range.end, new_range.end
            ),
        );
    }
    // apply: old -> new, and inverted: new -> old, by a tiny interpreter that
    // does not trust the walk above (it only uses op lengths and sources)
    let mut produced = Vec::new();
    let mut restored = Vec::new();
    for op in ops {
        match *op {
            Op::Equal(o, n, l) => {
                produced.extend_from_slice(&old[o..o + l]);
                restored.extend_from_slice(&new[n..n + l]);
            }
            Op::Delete(o, l, _) => restored.extend_from_slice(&old[o..o + l]),
            Op::Insert(_, n, l) => produced.extend_from_slice(&new[n..n + l]),
            Op::Replace(o, ol, n, nl) => {
                restored.extend_from_slice(&old[o..o + ol]);
                produced.extend_from_slice(&new[n..n + nl]);
            }
        }
    }
    if produced != new[new_range.clone()] {
        return fail("ops.apply", "applying the ops to old does not give new".into());
    }
    if restored != old[old_range.clone()] {
        return fail(
            "ops.invert",
            "applying the inverted ops to new does not give old".into(),
        );
    }
    Ok(())
}

/// Validity walk over a raw callback stream ("as in C01"): in order, gap-free,
/// nothing empty, equal segments element-wise equal, carried indices inside
/// the run of changes they belong to (exactly the cursor when the change
/// stands alone), `finish` exactly once and last.
pub fn walk_raw(
    calls: &[Call],
    old: &[u32],
    new: &[u32],
    old_range: Range<usize>,
    new_range: Range<usize>,
    expect_finish: bool,
) -> Result<(), Fail> {
    // start > end is an empty range
    let old_range = old_range.start..old_range.end.max(old_range.start);
    let new_range = new_range.start..new_range.end.max(new_range.start);
    let nfinish = calls.iter().filter(|c| **c == Call::Finish).count();
    if expect_finish {
        if nfinish != 1 {
            return fail("raw.finish_once", format!("finish called {} times", nfinish));
        }
        if calls.last() != Some(&Call::Finish) {
            return fail("raw.finish_last", "a call follows finish".into());
        }
    } else if nfinish != 0 {
        return fail("raw.no_finish", format!("finish called {} times", nfinish));
    }
    let ops = calls_to_ops(calls);
    let (mut oi, mut ni) = (old_range.start, new_range.start);
    // run of changes: (first op index, old start, new start)
    let mut idx = 0;
    while idx < ops.len() {
        let op = ops[idx];
        let (os, ol, ns, nl) = op.spans();
        if ol == 0 && nl == 0 {
            return fail("raw.nonempty", format!("call {} {:?} is empty", idx, op));
        }
        if op.is_equal() {
            if os != Some(oi) || ns != Some(ni) {
                return fail(
                    "raw.contiguous",
                    format!("call {} {:?}: cursor is ({}, {})", idx, op, oi, ni),
                );
            }
            if oi + ol > old_range.end || ni + nl > new_range.end {
                return fail("raw.in_range", format!("call {} {:?} past range end", idx, op));
            }
            if let Op::Equal(o, n, l) = op {
                for t in 0..l {
                    if old[o + t] != new[n + t] {
                        return fail(
                            "raw.equal_items",
                            format!("call {} {:?}: old[{}] != new[{}]", idx, op, o + t, n + t),
                        );
                    }
                }
            }
            oi += ol;
            ni += nl;
            idx += 1;
            continue;
        }
        // a run of changes
        let (run_o0, run_n0) = (oi, ni);
        let start = idx;
        while idx < ops.len() && !ops[idx].is_equal() {
            let op = ops[idx];
            let (os, ol, ns, nl) = op.spans();
            if ol == 0 && nl == 0 {
                return fail("raw.nonempty", format!("call {} {:?} is empty", idx, op));
            }
            if let Op::Replace(_, ol, _, nl) = op {
                if ol == 0 || nl == 0 {
                    return fail("raw.nonempty", format!("call {} {:?} has an empty side", idx, op));
                }
            }
            if let Some(os) = os {
                if os != oi {
                    return fail(
                        "raw.contiguous",
                        format!("call {} {:?}: old cursor is {}", idx, op, oi),
                    );
                }
            }
            if let Some(ns) = ns {
                if ns != ni {
                    return fail(
                        "raw.contiguous",
                        format!("call {} {:?}: new cursor is {}", idx, op, ni),
                    );
                }
            }
            if oi + ol > old_range.end || ni + nl > new_range.end {
                return fail("raw.in_range", format!("call {} {:?} past range end", idx, op));
            }
            oi += ol;
            ni += nl;
            idx += 1;
        }
        let (run_o1, run_n1) = (oi, ni);
        let alone = idx - start == 1;
        // carried indices
        let (mut co, mut cn) = (run_o0, run_n0);
        for (j, op) in ops[start..idx].iter().enumerate() {
            match *op {
                Op::Delete(_, l, carried_new) => {
                    if alone && carried_new != cn {
                        return fail(
                            "raw.carried_exact",
                            format!("call {} {:?} stands alone: new position is {}", start + j, op, cn),
                        );
                    }
                    if carried_new < run_n0 || carried_new > run_n1 {
                        return fail(
                            "raw.carried_in_run",
                            format!(
                                "call {} {:?}: carried new index outside run {}..={}",
                                start + j,
                                op,
                                run_n0,
                                run_n1
                            ),
                        );
                    }
                    co += l;
                }
                Op::Insert(carried_old, _, l) => {
                    if alone && carried_old != co {
                        return fail(
                            "raw.carried_exact",
                            format!("call {} {:?} stands alone: old position is {}", start + j, op, co),
                        );
                    }
                    if carried_old < run_o0 || carried_old > run_o1 {
                        return fail(
                            "raw.carried_in_run",
                            format!(
                                "call {} {:?}: carried old index outside run {}..={}",
                                start + j,
                                op,
                                run_o0,
                                run_o1
                            ),
                        );
                    }
                    cn += l;
                }
                Op::Replace(_, ol, _, nl) => {
                    co += ol;
                    cn += nl;
                }
                Op::Equal(..) => unreachable!(),
            }
        }
    }
    if oi != old_range.end || ni != new_range.end {
        return fail(
            "raw.cover",
            format!(
                "stream ended at ({}, {}) instead of ({}, {})",
                oi, ni, old_range.end, new_range.end
            ),
        );
    }
    Ok(())
}

/// Canonical normal form of captured op lists (C09).
pub fn normal_form(ops: &[Op], new: &[u32]) -> Result<(), Fail> {
    for (idx, op) in ops.iter().enumerate() {
        let (_, ol, _, nl) = op.spans();
        let empty = match *op {
            Op::Replace(_, ol, _, nl) => ol == 0 || nl == 0,
            _ => ol == 0 && nl == 0,
        };
        if empty {
            return fail("nf.nonempty", format!("op {} {:?} is empty", idx, op));
        }
        if idx + 1 < ops.len() {
            let next = ops[idx + 1];
            if op.is_equal() == next.is_equal() {
                return fail(
                    "nf.alternate",
                    format!("ops {} {:?} and {} {:?} do not alternate", idx, op, idx + 1, next),
                );
            }
            if let (Op::Insert(_, n, _), Op::Equal(_, en, _)) = (*op, next) {
                // (the list need not be a valid script here: C09 judges the
                // form only, so indices can point anywhere)
                let (Some(a), Some(b)) = (new.get(n), new.get(en)) else {
                    return fail(
                        "nf.index_in_range",
                        format!("op {} {:?} / {:?}: index outside the new sequence of {} items", idx, op, next, new.len()),
                    );
                };
                if a == b {
                    return fail(
                        "nf.insert_latest",
                        format!(
                            "op {} {:?} can slide down: new[{}] == new[{}]",
                            idx, op, n, en
                        ),
                    );
                }
            }
        }
    }
    Ok(())
}

pub fn count_del_ins(ops: &[Op]) -> (usize, usize) {
    ops.iter()
        .fold((0, 0), |(d, i), op| (d + op.deleted(), i + op.inserted()))
}

/// Plain O(NM) LCS length, used only to label cases for coverage statistics.
pub fn lcs_len(a: &[u32], b: &[u32]) -> usize {
    let mut prev = vec![0usize; b.len() + 1];
    let mut cur = vec![0usize; b.len() + 1];
    for i in 0..a.len() {
        for j in 0..b.len() {
            cur[j + 1] = if a[i] == b[j] {
                prev[j] + 1
            } else {
                prev[j + 1].max(cur[j])
            };
        }
        std::mem::swap(&mut prev, &mut cur);
    }
    prev[b.len()]
}
