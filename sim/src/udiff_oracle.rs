//! An independent unified-diff parser and strict applier (C05).  Works on
//! bytes; knows nothing about `similar`.

use crate::oracle::{fail, Fail};

/// Splits into physical lines; each keeps its terminator (LF, CRLF or a lone
/// CR); only the last may lack one.
pub fn split_lines(text: &[u8]) -> Vec<&[u8]> {
    let mut out = Vec::new();
    let mut start = 0;
    let mut i = 0;
    while i < text.len() {
        match text[i] {
            b'\n' => {
                out.push(&text[start..=i]);
                start = i + 1;
                i += 1;
            }
            b'\r' => {
                if i + 1 < text.len() && text[i + 1] == b'\n' {
                    out.push(&text[start..=i + 1]);
                    start = i + 2;
                    i += 2;
                } else {
                    out.push(&text[start..=i]);
                    start = i + 1;
                    i += 1;
                }
            }
            _ => i += 1,
        }
    }
    if start < text.len() {
        out.push(&text[start..]);
    }
    out
}

#[derive(Debug, Clone)]
pub struct BodyLine {
    pub tag: u8,
    /// the line as it must appear in the file (terminator included, or
    /// without one when the marker followed)
    pub content: Vec<u8>,
}

#[derive(Debug, Clone)]
pub struct Hunk {
    pub a: usize,
    pub b: usize,
    pub c: usize,
    pub d: usize,
    pub body: Vec<BodyLine>,
}

fn parse_range(s: &[u8]) -> Option<(usize, usize)> {
    let s = std::str::from_utf8(s).ok()?;
    let mut it = s.splitn(2, ',');
    let a = it.next()?;
    if a.is_empty() || !a.bytes().all(|b| b.is_ascii_digit()) {
        return None;
    }
    let a: usize = a.parse().ok()?;
    match it.next() {
        None => Some((a, 1)),
        Some(b) => {
            if b.is_empty() || !b.bytes().all(|b| b.is_ascii_digit()) {
                return None;
            }
            Some((a, b.parse().ok()?))
        }
    }
}

fn parse_hunk_header(line: &[u8]) -> Option<(usize, usize, usize, usize)> {
    let line = line.strip_suffix(b"\n")?;
    let rest = line.strip_prefix(b"@@ -")?;
    let rest = rest.strip_suffix(b" @@")?;
    let sp = rest.iter().position(|&b| b == b' ')?;
    let (l, r) = (&rest[..sp], &rest[sp + 1..]);
    let r = r.strip_prefix(b"+")?;
    let (a, b) = parse_range(l)?;
    let (c, d) = parse_range(r)?;
    Some((a, b, c, d))
}

const MARKER: &[u8] = b"\\ No newline at end of file\n";

/// Parses a rendered unified diff.  `header`: the file names that must be
/// announced (before the first hunk, only if there is a hunk).
pub fn parse(rendered: &[u8], header: Option<(&str, &str)>) -> Result<Vec<Hunk>, Fail> {
    let lines = split_lines(rendered);
    let mut idx = 0;
    if lines.is_empty() {
        return Ok(Vec::new());
    }
    if let Some((a, b)) = header {
        let l1 = format!("--- {}\n", a);
        let l2 = format!("+++ {}\n", b);
        if lines.len() < 2 || lines[0] != l1.as_bytes() || lines[1] != l2.as_bytes() {
            return fail(
                "udiff.file_header",
                "file header missing or malformed before the first hunk".into(),
            );
        }
        idx = 2;
        if lines.len() == 2 {
            return fail("udiff.file_header", "file header without any hunk".into());
        }
    }
    let mut hunks = Vec::new();
    while idx < lines.len() {
        let (a, b, c, d) = match parse_hunk_header(lines[idx]) {
            Some(h) => h,
            None => {
                return fail(
                    "udiff.hunk_header_syntax",
                    format!(
                        "expected a hunk header, found {:?}",
                        String::from_utf8_lossy(lines[idx])
                    ),
                )
            }
        };
        idx += 1;
        let mut body: Vec<BodyLine> = Vec::new();
        while idx < lines.len() && !lines[idx].starts_with(b"@@") {
            let l = lines[idx];
            if l.starts_with(b"\\") {
                if l != MARKER {
                    return fail(
                        "udiff.marker_syntax",
                        format!("malformed marker line {:?}", String::from_utf8_lossy(l)),
                    );
                }
                match body.last_mut() {
                    Some(prev) if prev.content.ends_with(b"\n") && !prev.content.ends_with(b"\r\n") => {
                        prev.content.pop();
                        if prev.content.ends_with(b"\r") {
                            return fail(
                                "udiff.marker_placement",
                                "marker after a line that has a terminator".into(),
                            );
                        }
                    }
                    _ => {
                        return fail(
                            "udiff.marker_placement",
                            "marker without a preceding line to attach to".into(),
                        )
                    }
                }
                idx += 1;
                continue;
            }
            let tag = l[0];
            if tag != b' ' && tag != b'-' && tag != b'+' {
                return fail(
                    "udiff.body_syntax",
                    format!("body line without tag: {:?}", String::from_utf8_lossy(l)),
                );
            }
            body.push(BodyLine {
                tag,
                content: l[1..].to_vec(),
            });
            idx += 1;
        }
        hunks.push(Hunk { a, b, c, d, body });
    }
    Ok(hunks)
}

fn ends_with_terminator(l: &[u8]) -> bool {
    matches!(l.last(), Some(b'\n') | Some(b'\r'))
}

/// Checks every clause of C05 that is about the rendered text and applies the
/// hunks strictly.  `old`/`new` are the original texts.
pub fn check(
    rendered: &[u8],
    header: Option<(&str, &str)>,
    old: &[u8],
    new: &[u8],
    radius: usize,
) -> Result<usize, Fail> {
    if old == new {
        if !rendered.is_empty() {
            return fail(
                "udiff.equal_inputs_empty",
                format!("equal inputs rendered {} bytes", rendered.len()),
            );
        }
        return Ok(0);
    }
    let hunks = parse(rendered, header)?;
    if hunks.is_empty() {
        return fail("udiff.apply", "different inputs rendered no hunk".into());
    }
    let old_lines = split_lines(old);
    let new_lines = split_lines(new);
    let mut out: Vec<&[u8]> = Vec::new();
    let mut pos = 0usize;
    for (hi, h) in hunks.iter().enumerate() {
        let nold = h.body.iter().filter(|l| l.tag != b'+').count();
        let nnew = h.body.iter().filter(|l| l.tag != b'-').count();
        if nold != h.b || nnew != h.d {
            return fail(
                "udiff.header_counts",
                format!(
                    "hunk {}: header says -{},{} +{},{} but the body has {} old-side and {} new-side lines",
                    hi, h.a, h.b, h.c, h.d, nold, nnew
                ),
            );
        }
        if !h.body.iter().any(|l| l.tag != b' ') {
            return fail("udiff.hunk_has_change", format!("hunk {} has no change", hi));
        }
        let lead = h.body.iter().take_while(|l| l.tag == b' ').count();
        let trail = h.body.iter().rev().take_while(|l| l.tag == b' ').count();
        if lead > radius || trail > radius {
            return fail(
                "udiff.context_radius",
                format!(
                    "hunk {}: {} leading / {} trailing context lines, radius {}",
                    hi, lead, trail, radius
                ),
            );
        }
        let mut seen_plus = false;
        for l in &h.body {
            match l.tag {
                b' ' => seen_plus = false,
                b'+' => seen_plus = true,
                _ => {
                    if seen_plus {
                        return fail(
                            "udiff.deletions_first",
                            format!("hunk {}: a deletion follows an insertion in one run", hi),
                        );
                    }
                }
            }
        }
        // true positions
        if (h.b == 0 && h.a > old_lines.len()) || (h.b > 0 && (h.a == 0 || h.a - 1 + h.b > old_lines.len())) {
            return fail(
                "udiff.old_start",
                format!("hunk {}: -{},{} lies outside the old text ({} lines)", hi, h.a, h.b, old_lines.len()),
            );
        }
        let start0 = if h.b == 0 { h.a } else { h.a - 1 };
        if start0 < pos {
            return fail(
                "udiff.order",
                format!("hunk {} starts at old line {} but the previous hunk ended at {}", hi, start0 + 1, pos),
            );
        }
        out.extend_from_slice(&old_lines[pos..start0]);
        let expect_c = if h.d == 0 { out.len() } else { out.len() + 1 };
        if h.c != expect_c {
            return fail(
                "udiff.new_start",
                format!(
                    "hunk {}: header says +{},{} but the hunk lands at new line {}",
                    hi, h.c, h.d, expect_c
                ),
            );
        }
        let mut cur = start0;
        for (li, l) in h.body.iter().enumerate() {
            match l.tag {
                b'+' => {}
                _ => {
                    if cur >= old_lines.len() || old_lines[cur] != &l.content[..] {
                        return fail(
                            "udiff.apply",
                            format!(
                                "hunk {} line {}: {:?} does not match old line {}",
                                hi,
                                li,
                                String::from_utf8_lossy(&l.content),
                                cur + 1
                            ),
                        );
                    }
                    cur += 1;
                }
            }
        }
        // second pass to push (borrow of h.body content with right lifetime)
        let mut cur2 = start0;
        for l in h.body.iter() {
            match l.tag {
                b' ' => {
                    out.push(old_lines[cur2]);
                    cur2 += 1;
                }
                b'-' => cur2 += 1,
                _ => out.push(&l.content[..]),
            }
        }
        pos = cur;
    }
    out.extend_from_slice(&old_lines[pos..]);
    if out.len() != new_lines.len() || out.iter().zip(new_lines.iter()).any(|(a, b)| a != b) {
        // tell a lost/misplaced missing-newline marker apart from other damage
        let joined: Vec<u8> = out.concat();
        let clause = if out.len() == new_lines.len()
            && out.iter().zip(new_lines.iter()).all(|(a, b)| {
                a == b || (ends_with_terminator(a) != ends_with_terminator(b))
            }) {
            "udiff.missing_newline"
        } else {
            "udiff.apply"
        };
        return fail(
            clause,
            format!(
                "applying the hunks gives {:?}, expected {:?}",
                String::from_utf8_lossy(&joined),
                String::from_utf8_lossy(new)
            ),
        );
    }
    Ok(hunks.len())
}
