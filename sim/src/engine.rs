//! Batch runner: seeded runs in parallel, commutative folding (so results do
//! not depend on the worker count), violation triage, minimisation, replay
//! files, evidence.

use std::collections::{BTreeMap, HashSet};
use std::panic::{catch_unwind, AssertUnwindSafe};
use std::path::{Path, PathBuf};
use std::sync::atomic::{AtomicU64, Ordering};
use std::sync::Mutex;
use std::time::Instant;

use serde::de::DeserializeOwned;
use serde::Serialize;
use serde_json::{json, Value};

use crate::oracle::Fail;
use crate::prng::{mix, Dig, Rng};

#[derive(Clone, Copy, PartialEq, Eq, Debug)]
pub enum Tier {
    Quick,
    Thorough,
}

impl Tier {
    pub fn name(self) -> &'static str {
        match self {
            Tier::Quick => "quick",
            Tier::Thorough => "thorough",
        }
    }
}

pub const NFAULT: usize = 24;

/// Counts distinct 64-bit digests with bounded memory: exact up to `CAP`
/// entries, beyond that only every 64th digest value (by its low bits) is
/// remembered.  `len()` is then a lower bound of the true number of
/// distinct digests (it never over-counts), exact while below the cap.
pub struct Distinct {
    exact: HashSet<u64>,
    sampled: HashSet<u64>,
    cap: usize,
}

const DISTINCT_CAP: usize = 6_000_000;
/// per-worker accumulators are merged at the end; they get a smaller cap so
/// that 16 of them stay small
const WORKER_CAP: usize = 600_000;

impl Default for Distinct {
    fn default() -> Self {
        Distinct {
            exact: HashSet::new(),
            sampled: HashSet::new(),
            cap: DISTINCT_CAP,
        }
    }
}

impl Distinct {
    pub fn for_worker() -> Distinct {
        Distinct {
            exact: HashSet::new(),
            sampled: HashSet::new(),
            cap: WORKER_CAP,
        }
    }
    pub fn insert(&mut self, d: u64) {
        if self.exact.len() < self.cap {
            self.exact.insert(d);
        } else if d & 63 == 0 && self.sampled.len() < DISTINCT_CAP && !self.exact.contains(&d) {
            self.sampled.insert(d);
        }
    }
    pub fn merge(&mut self, other: Distinct) {
        for d in other.exact {
            self.insert(d);
        }
        for d in other.sampled {
            if !self.exact.contains(&d) && self.sampled.len() < DISTINCT_CAP {
                self.sampled.insert(d);
            }
        }
    }
    pub fn len(&self) -> usize {
        self.exact.len() + self.sampled.len()
    }
    pub fn saturated(&self) -> bool {
        self.exact.len() >= self.cap || !self.sampled.is_empty()
    }
}

/// What one run (one case, all its fault points) reports back.
#[derive(Clone, Debug)]
pub struct RunOut {
    /// first failing clause, if any
    pub fail: Option<Fail>,
    /// set when the failure was attributed to a listed known finding
    pub known: Option<String>,
    /// number of executions of real code in this run
    pub execs: u64,
    /// digests of the executions in which an injected fault actually fired
    /// (or, per property, an adapter rewrite / order change actually occurred)
    pub nontrivial_digests: Vec<u64>,
    /// digest of the whole run (all executions)
    pub digest: u64,
    /// per kind: how often a fault actually fired
    pub faults: [u64; NFAULT],
    pub hits: [u64; similar::verif::HITS],
    pub virt_ns: u64,
    /// free-form per-property counters, summed
    pub counters: BTreeMap<&'static str, u64>,
    /// max-merged gauges
    pub gauges: BTreeMap<&'static str, u64>,
}

impl Default for RunOut {
    fn default() -> RunOut {
        RunOut {
            fail: None,
            known: None,
            execs: 0,
            nontrivial_digests: Vec::new(),
            digest: 0,
            faults: [0; NFAULT],
            hits: [0; similar::verif::HITS],
            virt_ns: 0,
            counters: BTreeMap::new(),
            gauges: BTreeMap::new(),
        }
    }
}

impl RunOut {
    pub fn count(&mut self, key: &'static str, n: u64) {
        *self.counters.entry(key).or_insert(0) += n;
    }
    pub fn gauge(&mut self, key: &'static str, v: u64) {
        let e = self.gauges.entry(key).or_insert(0);
        *e = (*e).max(v);
    }
    pub fn absorb_hits(&mut self) {
        let h = similar::verif::take_hits();
        for (a, b) in self.hits.iter_mut().zip(h.iter()) {
            *a += *b;
        }
    }
}

pub trait Prop: Sync {
    type Case: Clone + Serialize + DeserializeOwned + Send;

    fn id(&self) -> &'static str;
    fn level(&self) -> &'static str;
    fn rule(&self) -> &'static str;
    fn fault_names(&self) -> Vec<&'static str>;
    fn components(&self) -> Value;
    fn assumptions(&self) -> Vec<&'static str>;
    fn runs(&self, tier: Tier) -> u64;
    fn gen(&self, rng: &mut Rng, tier: Tier, idx: u64) -> Self::Case;
    fn exec(&self, case: &Self::Case) -> RunOut;
    /// Simpler variants of a case, most aggressive first.
    fn shrink(&self, case: &Self::Case) -> Vec<Self::Case>;
    /// Narrow a case to the single failing fault point recorded in `fail`
    /// (so the replay file is one execution, not an enumeration).
    fn focus(&self, case: &Self::Case, _fail: &Fail) -> Self::Case {
        case.clone()
    }
    /// Reach probes that must be non-zero over a batch (name, value).
    fn reach(&self, _agg: &Agg) -> Vec<(&'static str, u64)> {
        Vec::new()
    }
}

pub struct Agg {
    pub runs: u64,
    pub execs: u64,
    pub digests: Distinct,
    pub nontrivial: Distinct,
    pub batch_digest: u64,
    pub faults: [u64; NFAULT],
    pub hits: [u64; similar::verif::HITS],
    pub virt_ns: u64,
    pub counters: BTreeMap<&'static str, u64>,
    pub gauges: BTreeMap<&'static str, u64>,
    pub fails: Vec<(u64, Fail, Option<String>)>,
    pub known: BTreeMap<String, (u64, u64)>, // id -> (count, lowest idx)
}

impl Default for Agg {
    fn default() -> Agg {
        Agg {
            runs: 0,
            execs: 0,
            digests: Distinct::default(),
            nontrivial: Distinct::default(),
            batch_digest: 0,
            faults: [0; NFAULT],
            hits: [0; similar::verif::HITS],
            virt_ns: 0,
            counters: BTreeMap::new(),
            gauges: BTreeMap::new(),
            fails: Vec::new(),
            known: BTreeMap::new(),
        }
    }
}

impl Agg {
    fn add(&mut self, idx: u64, out: RunOut) {
        self.runs += 1;
        self.execs += out.execs;
        self.digests.insert(out.digest);
        for d in out.nontrivial_digests {
            self.nontrivial.insert(d);
        }
        self.batch_digest = self.batch_digest.wrapping_add(mix(&[idx, out.digest]));
        for i in 0..NFAULT {
            self.faults[i] += out.faults[i];
        }
        for i in 0..self.hits.len() {
            self.hits[i] += out.hits[i];
        }
        self.virt_ns = self.virt_ns.saturating_add(out.virt_ns);
        for (k, v) in out.counters {
            *self.counters.entry(k).or_insert(0) += v;
        }
        for (k, v) in out.gauges {
            let e = self.gauges.entry(k).or_insert(0);
            *e = (*e).max(v);
        }
        if let Some(f) = out.fail {
            if let Some(k) = &out.known {
                let e = self.known.entry(k.clone()).or_insert((0, idx));
                e.0 += 1;
                e.1 = e.1.min(idx);
            } else if self.fails.len() < 64 {
                self.fails.push((idx, f, None));
            }
        }
    }

    fn merge(&mut self, other: Agg) {
        self.runs += other.runs;
        self.execs += other.execs;
        self.digests.merge(other.digests);
        self.nontrivial.merge(other.nontrivial);
        self.batch_digest = self.batch_digest.wrapping_add(other.batch_digest);
        for i in 0..NFAULT {
            self.faults[i] += other.faults[i];
        }
        for i in 0..self.hits.len() {
            self.hits[i] += other.hits[i];
        }
        self.virt_ns = self.virt_ns.saturating_add(other.virt_ns);
        for (k, v) in other.counters {
            *self.counters.entry(k).or_insert(0) += v;
        }
        for (k, v) in other.gauges {
            let e = self.gauges.entry(k).or_insert(0);
            *e = (*e).max(v);
        }
        self.fails.extend(other.fails);
        for (k, (c, i)) in other.known {
            let e = self.known.entry(k).or_insert((0, i));
            e.0 += c;
            e.1 = e.1.min(i);
        }
    }
}

pub fn prop_tag(id: &str) -> u64 {
    let mut d = Dig::new();
    d.add_bytes(id.as_bytes());
    d.finish()
}

pub fn run_seed(batch_seed: u64, id: &str, idx: u64) -> u64 {
    mix(&[batch_seed, prop_tag(id), idx])
}

thread_local! {
    static TRACE: std::cell::RefCell<Option<Vec<String>>> = const { std::cell::RefCell::new(None) };
}

/// Records one line of the execution history of the current run; only active
/// while the batch runner re-executes a sample case for the evidence file
/// (never draws from the PRNG, never reads a clock).
pub fn trace(f: impl FnOnce() -> String) {
    TRACE.with(|t| {
        if let Some(lines) = t.borrow_mut().as_mut() {
            if lines.len() < 60 {
                lines.push(f());
            }
        }
    });
}

fn with_trace<T>(f: impl FnOnce() -> T) -> (T, Vec<String>) {
    TRACE.with(|t| *t.borrow_mut() = Some(Vec::new()));
    let r = f();
    let lines = TRACE.with(|t| t.borrow_mut().take()).unwrap_or_default();
    (r, lines)
}

thread_local! {
    static LAST_PANIC: std::cell::RefCell<Option<String>> = const { std::cell::RefCell::new(None) };
}

pub fn install_panic_hook() {
    std::panic::set_hook(Box::new(|info| {
        let msg = if let Some(s) = info.payload().downcast_ref::<&str>() {
            s.to_string()
        } else if let Some(s) = info.payload().downcast_ref::<String>() {
            s.clone()
        } else {
            "panic".to_string()
        };
        let loc = info
            .location()
            .map(|l| format!("{}:{}", l.file(), l.line()))
            .unwrap_or_default();
        LAST_PANIC.with(|p| *p.borrow_mut() = Some(format!("{} at {}", msg, loc)));
    }));
}

/// Runs `f`, turning a panic into `Err(message)`.
pub fn guarded<T>(f: impl FnOnce() -> T) -> Result<T, String> {
    match catch_unwind(AssertUnwindSafe(f)) {
        Ok(v) => Ok(v),
        Err(_) => Err(LAST_PANIC
            .with(|p| p.borrow_mut().take())
            .unwrap_or_else(|| "panic".into())),
    }
}

fn exec_guarded<P: Prop>(p: &P, case: &P::Case) -> RunOut {
    match guarded(|| p.exec(case)) {
        Ok(out) => out,
        Err(msg) => {
            // a panic that escaped the property's own guards is a harness
            // problem unless the property attributes it; report it as such
            let mut out = RunOut::default();
            out.fail = Some(Fail {
                clause: "harness.panic",
                detail: msg,
            });
            out
        }
    }
}

pub fn workers() -> usize {
    std::env::var("VERIF_WORKERS")
        .ok()
        .and_then(|s| s.parse().ok())
        .unwrap_or_else(|| {
            std::thread::available_parallelism()
                .map(|n| n.get())
                .unwrap_or(4)
        })
}

pub struct BatchResult {
    pub agg: Agg,
    pub wall_s: f64,
    pub samples: Vec<Value>,
}

pub fn run_batch<P: Prop>(p: &P, tier: Tier, seed: u64, nruns: u64) -> BatchResult {
    let t0 = Instant::now();
    let next = AtomicU64::new(0);
    let total = Mutex::new(Agg::default());
    let nw = workers().max(1);
    std::thread::scope(|s| {
        for _ in 0..nw {
            s.spawn(|| {
                let mut agg = Agg::default();
                agg.digests = Distinct::for_worker();
                agg.nontrivial = Distinct::for_worker();
                loop {
                    let start = next.fetch_add(16, Ordering::Relaxed);
                    if start >= nruns {
                        break;
                    }
                    for idx in start..(start + 16).min(nruns) {
                        let mut rng = Rng::new(run_seed(seed, p.id(), idx));
                        // a panic while generating a case is a harness defect:
                        // report it as such instead of tearing the batch down
                        let out = match guarded(|| p.gen(&mut rng, tier, idx)) {
                            Ok(case) => exec_guarded(p, &case),
                            Err(msg) => {
                                let mut out = RunOut::default();
                                out.fail = Some(Fail {
                                    clause: "harness.gen_panic",
                                    detail: msg,
                                });
                                out
                            }
                        };
                        agg.add(idx, out);
                    }
                }
                total.lock().unwrap().merge(agg);
            });
        }
    });
    let mut agg = total.into_inner().unwrap();
    agg.fails.sort_by_key(|f| f.0);
    // samples: the first three cases and up to three more spread over the batch
    let mut samples = Vec::new();
    let mut picks: Vec<u64> = vec![0, 1, 2, nruns / 3, nruns / 2, nruns.saturating_sub(1)];
    picks.sort();
    picks.dedup();
    for idx in picks {
        if idx >= nruns {
            continue;
        }
        let mut rng = Rng::new(run_seed(seed, p.id(), idx));
        let case = p.gen(&mut rng, tier, idx);
        let mut v = serde_json::to_value(&case).unwrap_or(Value::Null);
        truncate_value(&mut v);
        let (out, history) = with_trace(|| exec_guarded(p, &case));
        samples.push(json!({
            "run": idx,
            "case": v,
            "executions": out.execs,
            "history_excerpt": history,
        }));
    }
    BatchResult {
        agg,
        wall_s: t0.elapsed().as_secs_f64(),
        samples,
    }
}

/// Keeps evidence samples readable: long arrays/strings are cut.
pub fn truncate_value(v: &mut Value) {
    match v {
        Value::Array(a) => {
            if a.len() > 48 {
                let n = a.len();
                a.truncate(48);
                a.push(Value::String(format!("... ({} items)", n)));
            }
            for x in a.iter_mut() {
                truncate_value(x);
            }
        }
        Value::Object(o) => {
            for (_, x) in o.iter_mut() {
                truncate_value(x);
            }
        }
        Value::String(s) => {
            if s.len() > 400 {
                let mut cut = 400;
                while !s.is_char_boundary(cut) {
                    cut -= 1;
                }
                let n = s.len();
                s.truncate(cut);
                s.push_str(&format!("... ({} bytes)", n));
            }
        }
        _ => {}
    }
}

// ------------------------------------------------------------ minimisation

pub fn minimise<P: Prop>(p: &P, case: &P::Case, fail: &Fail, budget: usize) -> (P::Case, Fail, usize) {
    let mut cur = p.focus(case, fail);
    let mut cur_fail = match exec_guarded(p, &cur) {
        RunOut {
            fail: Some(f),
            known: None,
            ..
        } if f.clause == fail.clause => f,
        _ => {
            // focusing lost the failure; keep the unfocused case
            cur = case.clone();
            fail.clone()
        }
    };
    let mut used = 0;
    // minimisation is best effort: bounded by candidate count and by wall
    // time (the verdict never depends on how far it got; the file that is
    // written is re-executed in a fresh process before it is reported)
    let started = Instant::now();
    let time_limit = std::time::Duration::from_secs(
        std::env::var("VERIF_SHRINK_SECS")
            .ok()
            .and_then(|s| s.parse().ok())
            .unwrap_or(40),
    );
    let mut seen: HashSet<u64> = HashSet::new();
    let key = |c: &P::Case| {
        let mut d = Dig::new();
        d.add_bytes(serde_json::to_string(c).unwrap_or_default().as_bytes());
        d.finish()
    };
    seen.insert(key(&cur));
    'outer: loop {
        let cands = p.shrink(&cur);
        for cand in cands {
            if used >= budget || started.elapsed() > time_limit {
                break 'outer;
            }
            if !seen.insert(key(&cand)) {
                continue;
            }
            used += 1;
            let out = exec_guarded(p, &cand);
            if let (Some(f), None) = (&out.fail, &out.known) {
                if f.clause == cur_fail.clause {
                    cur = p.focus(&cand, f);
                    cur_fail = f.clone();
                    continue 'outer;
                }
            }
        }
        break;
    }
    (cur, cur_fail, used)
}

/// Where evidence and replay files go (defaults to the verif dir; mutant
/// runs point it elsewhere so that committed evidence is not overwritten).
pub fn out_dir() -> PathBuf {
    std::env::var("VERIF_OUT_DIR")
        .map(PathBuf::from)
        .unwrap_or_else(|_| verif_dir())
}

pub fn verif_dir() -> PathBuf {
    std::env::var("VERIF_DIR")
        .map(PathBuf::from)
        .unwrap_or_else(|_| PathBuf::from("/verif"))
}

pub fn write_replay<P: Prop>(
    p: &P,
    case: &P::Case,
    fail: &Fail,
    seed: u64,
    run: u64,
    shrink_steps: usize,
) -> PathBuf {
    let dir = out_dir().join("replays").join(p.id());
    let _ = std::fs::create_dir_all(&dir);
    let body = json!({
        "property": p.id(),
        "clause": fail.clause,
        "detail": fail.detail,
        "batch_seed": seed,
        "run": run,
        "shrink_steps": shrink_steps,
        "case": serde_json::to_value(case).unwrap(),
    });
    let text = serde_json::to_string_pretty(&body).unwrap();
    let mut d = Dig::new();
    d.add_bytes(serde_json::to_string(&body["case"]).unwrap().as_bytes());
    let path = dir.join(format!("{}-{:016x}.json", seed, d.finish()));
    std::fs::write(&path, text).expect("write replay file");
    path
}

/// Re-executes a replay file; returns (clause, detail) of the violation it
/// reproduces, if any.
pub fn replay_file<P: Prop>(p: &P, path: &Path) -> Result<Option<(Fail, Option<String>)>, String> {
    let text = std::fs::read_to_string(path).map_err(|e| format!("read {}: {}", path.display(), e))?;
    let v: Value = serde_json::from_str(&text).map_err(|e| format!("parse: {}", e))?;
    let case: P::Case =
        serde_json::from_value(v["case"].clone()).map_err(|e| format!("case: {}", e))?;
    let out = exec_guarded(p, &case);
    Ok(out.fail.map(|f| (f, out.known)))
}

// ----------------------------------------------------------------- evidence

pub fn write_evidence<P: Prop>(
    p: &P,
    tier: Tier,
    seed: u64,
    res: &BatchResult,
    violations: usize,
    known_lines: &[String],
    extra: Value,
) {
    let agg = &res.agg;
    let names = p.fault_names();
    let mut fault_counts = serde_json::Map::new();
    for (i, n) in names.iter().enumerate() {
        fault_counts.insert(n.to_string(), json!(agg.faults[i]));
    }
    let mut reach = serde_json::Map::new();
    for (n, v) in p.reach(agg) {
        reach.insert(n.to_string(), json!(v));
    }
    let counters: serde_json::Map<String, Value> = agg
        .counters
        .iter()
        .map(|(k, v)| (k.to_string(), json!(v)))
        .collect();
    let gauges: serde_json::Map<String, Value> = agg
        .gauges
        .iter()
        .map(|(k, v)| (k.to_string(), json!(v)))
        .collect();
    let wall = res.wall_s.max(1e-9);
    let ev = json!({
        "property_id": p.id(),
        "tier": tier.name(),
        "seed": seed,
        "level": p.level(),
        "coverage": {
            "evaluations": agg.execs,
            "distinct_nontrivial": agg.nontrivial.len(),
            "rule": p.rule(),
            "samples": res.samples,
            "exhaustive": false,
            "simulated_runs": agg.runs,
            "executions_of_real_code": agg.execs,
            "distinct_runs": agg.digests.len(),
            "distinct_counts_are_lower_bounds": agg.digests.saturated() || agg.nontrivial.saturated(),
            "seeds": format!("batch seed {} -> run seeds splitmix(seed, property, 0..{})", seed, agg.runs),
            "runs_per_hour": (agg.runs as f64 / wall * 3600.0) as u64,
            "executions_per_hour": (agg.execs as f64 / wall * 3600.0) as u64,
            "virtual_time_ns": agg.virt_ns,
            "fault_counts": fault_counts,
            "reach": reach,
            "counters": counters,
            "gauges": gauges,
            "batch_digest": format!("{:016x}", agg.batch_digest),
            "workers": workers(),
            "components": p.components(),
            "known_findings_seen": known_lines,
            "extra": extra,
        },
        "assumptions": p.assumptions(),
        "wall_s": res.wall_s,
        "violations": violations,
    });
    let dir = out_dir().join("evidence");
    let _ = std::fs::create_dir_all(&dir);
    let suffix = std::env::var("VERIF_EVIDENCE_SUFFIX").unwrap_or_default();
    let path = dir.join(format!("{}{}.json", p.id(), suffix));
    std::fs::write(&path, serde_json::to_string_pretty(&ev).unwrap()).expect("write evidence");
}
